/* generic harness for a machine generated with uscxml-transform -tc
 * cc -DMACHINE_FILE='"x.c"' charness.c -o x ; ./x ev1 ev2 ...
 * checks the legality of ctx.config after every uscxml_step */
#include <stdio.h>
#include <string.h>
#include <stdlib.h>
#include MACHINE_FILE

static int g_argc; static char** g_argv; static int g_next = 1;
static const char* iq[64]; static int iqh = 0, iqt = 0;

static void* deq_int(const uscxml_ctx* ctx) {
	if (iqh == iqt) return NULL;
	return (void*)iq[iqh++ % 64];
}
static void* deq_ext(const uscxml_ctx* ctx) {
	if (g_next >= g_argc) return NULL;
	return g_argv[g_next++];
}
static int name_match(const char* desc, const char* ev) {
	/* space separated descriptors, prefix match on token boundary, '*' wildcard */
	char buf[256]; strncpy(buf, desc, 255); buf[255] = 0;
	char* tok = strtok(buf, " ");
	while (tok) {
		size_t l = strlen(tok);
		if (strcmp(tok, "*") == 0) return 1;
		if (l > 2 && tok[l-1] == '*' && tok[l-2] == '.') { tok[l-2] = 0; l -= 2; }
		else if (l > 1 && tok[l-1] == '.') { tok[l-1] = 0; l -= 1; }
		if (strncmp(tok, ev, l) == 0 && (ev[l] == 0 || ev[l] == '.')) return 1;
		tok = strtok(NULL, " ");
	}
	return 0;
}
static int is_matched(const uscxml_ctx* ctx, const uscxml_transition* t, const void* e) {
	return name_match(t->event, (const char*)e);
}
static int in_state(const uscxml_ctx* ctx, const char* id, size_t len) {
	size_t i;
	for (i = 0; i < ctx->machine->nr_states; i++) {
		const char* n = ctx->machine->states[i].name;
		if (n && strlen(n) == len && strncmp(n, id, len) == 0) return BIT_HAS(i, ctx->config);
	}
	return 0;
}
static int is_true(const uscxml_ctx* ctx, const char* expr) {
	int neg = 0;
	const char* p = expr;
	if (*p == '!') { neg = 1; p++; }
	if (strncmp(p, "In('", 4) == 0) {
		const char* q = strchr(p + 4, '\'');
		int r = in_state(ctx, p + 4, (size_t)(q - (p + 4)));
		return neg ? !r : r;
	}
	return 0;
}
static char donebuf[64][128]; static int dbn = 0;
static int raise_done(const uscxml_ctx* ctx, const uscxml_state* s, const uscxml_elem_donedata* dd) {
	char* b = donebuf[dbn++ % 64];
	snprintf(b, 128, "done.state.%s", s->name ? s->name : "");
	iq[iqt++ % 64] = b;
	return USCXML_ERR_OK;
}

static void print_conf(const uscxml_ctx* ctx) {
	size_t i;
	for (i = 0; i < ctx->machine->nr_states; i++)
		if (BIT_HAS(i, ctx->config)) printf("%s ", ctx->machine->states[i].name ? ctx->machine->states[i].name : (i == 0 ? "scxml" : "?"));
	printf("\n");
}

static int proper(unsigned char t) {
	t = USCXML_STATE_MASK(t);
	return t == USCXML_STATE_ATOMIC || t == USCXML_STATE_PARALLEL || t == USCXML_STATE_COMPOUND || t == USCXML_STATE_FINAL;
}

static int legal(const uscxml_ctx* ctx, char* why) {
	size_t i, j, n = ctx->machine->nr_states;
	int atomic = 0;
	const uscxml_state* st = ctx->machine->states;
	if (!BIT_HAS(0, ctx->config)) { sprintf(why, "root not active"); return 0; }
	for (i = 0; i < n; i++) {
		unsigned char t = USCXML_STATE_MASK(st[i].type);
		size_t kids = 0, act = 0;
		if (!BIT_HAS(i, ctx->config)) continue;
		if (!proper(t)) { sprintf(why, "pseudo state %s active", st[i].name); return 0; }
		if (i > 0 && !BIT_HAS(st[i].parent, ctx->config)) { sprintf(why, "parent of %s not active", st[i].name); return 0; }
		for (j = 0; j < n; j++) {
			if (j != i && BIT_HAS(j, st[i].children) && proper(st[j].type)) {
				kids++;
				if (BIT_HAS(j, ctx->config)) act++;
			}
		}
		if (t == USCXML_STATE_ATOMIC || t == USCXML_STATE_FINAL) atomic = 1;
		if (t == USCXML_STATE_PARALLEL && act != kids) { sprintf(why, "parallel %s has inactive child", st[i].name); return 0; }
		if (t == USCXML_STATE_COMPOUND && act != 1) { sprintf(why, "compound %s has %d active children", st[i].name ? st[i].name : "scxml", (int)act); return 0; }
	}
	if (!atomic) { sprintf(why, "no atomic state"); return 0; }
	return 1;
}

int main(int argc, char** argv) {
	uscxml_ctx ctx;
	int err, steps = 0;
	char why[256];
	g_argc = argc; g_argv = argv;
	memset(&ctx, 0, sizeof(ctx));
	ctx.machine = &USCXML_MACHINE;
	ctx.dequeue_internal = deq_int;
	ctx.dequeue_external = deq_ext;
	ctx.is_matched = is_matched;
	ctx.is_true = is_true;
	ctx.raise_done_event = raise_done;
	while (steps++ < 3000) {
		err = uscxml_step(&ctx);
		if (ctx.flags & USCXML_CTX_TOP_LEVEL_FINAL) break;
		if (getenv("DRV_VERBOSE")) { printf("[%d] ", err); print_conf(&ctx); }
		if (!legal(&ctx, why)) {
			printf("ILLEGAL(c) after step %d: %s :: ", steps, why);
			print_conf(&ctx);
			return 1;
		}
		if (err == USCXML_ERR_IDLE || err == USCXML_ERR_DONE) break;
		if (err != USCXML_ERR_OK) { printf("ERR %d\n", err); return 4; }
	}
	printf("OK\n");
	return 0;
}
