#include "uscxml/uscxml.h"
#include <iostream>
using namespace uscxml;
static void settle(Interpreter& i) { InterpreterState s; int n = 0; while ((s = i.step(0)) != USCXML_IDLE && s != USCXML_FINISHED && n++ < 100) {} }
int main(int argc, char** argv) {
	Interpreter i = Interpreter::fromURL(argv[1]);
	settle(i);
	const char* evs[] = {"c", "back", "c", "back", "ab"};
	for (auto e : evs) { Event ev; ev.name = e; i.receive(ev); settle(i); }
	std::cout << "r1b=" << i.isInState("r1b") << " r2b=" << i.isInState("r2b") << (i.isInState("r1b") && i.isInState("r2b") ? "  OK" : "  WRONG: both regions have a transition on 'ab'") << std::endl;
	return (i.isInState("r1b") && i.isInState("r2b")) ? 0 : 1;
}
