// Prints the sequence of monitor notifications for a document (replay driver for the C13 findings).
#include "uscxml/uscxml.h"
#include "uscxml/interpreter/InterpreterMonitor.h"
#include "uscxml/util/DOM.h"
#include <iostream>
using namespace uscxml;
struct Trace : public InterpreterMonitor {
	std::string id(const XERCESC_NS::DOMElement* e) { return e && HAS_ATTR(e, X("id")) ? ATTR(e, X("id")) : (e ? TAGNAME(e) : "?"); }
	void beforeProcessingEvent(const std::string&, const Event& ev) { std::cout << "beforeProcessingEvent " << ev.name << std::endl; }
	void beforeMicroStep(const std::string&) { std::cout << "beforeMicroStep" << std::endl; }
	void afterMicroStep(const std::string&) { std::cout << "afterMicroStep" << std::endl; }
	void beforeExitingState(const std::string&, const std::string& n, const XERCESC_NS::DOMElement*) { std::cout << "  beforeExitingState " << n << std::endl; }
	void afterExitingState(const std::string&, const std::string& n, const XERCESC_NS::DOMElement*) { std::cout << "  afterExitingState " << n << std::endl; }
	void beforeEnteringState(const std::string&, const std::string& n, const XERCESC_NS::DOMElement*) { std::cout << "  beforeEnteringState " << n << std::endl; }
	void afterEnteringState(const std::string&, const std::string& n, const XERCESC_NS::DOMElement*) { std::cout << "  afterEnteringState " << n << std::endl; }
	void beforeExecutingContent(const std::string&, const XERCESC_NS::DOMElement* e) { std::cout << "    beforeExecutingContent " << TAGNAME(e) << std::endl; }
	void afterExecutingContent(const std::string&, const XERCESC_NS::DOMElement* e) { std::cout << "    afterExecutingContent " << TAGNAME(e) << std::endl; }
	void beforeInvoking(const std::string&, const XERCESC_NS::DOMElement*, const std::string& i) { std::cout << "beforeInvoking " << i << std::endl; }
	void afterInvoking(const std::string&, const XERCESC_NS::DOMElement*, const std::string& i) { std::cout << "afterInvoking " << i << std::endl; }
	void beforeUninvoking(const std::string&, const XERCESC_NS::DOMElement*, const std::string& i) { std::cout << "beforeUninvoking " << i << std::endl; }
	void afterUninvoking(const std::string&, const XERCESC_NS::DOMElement*, const std::string& i) { std::cout << "afterUninvoking " << i << std::endl; }
	void beforeCompletion(const std::string&) { std::cout << "beforeCompletion" << std::endl; }
	void afterCompletion(const std::string&) { std::cout << "afterCompletion" << std::endl; }
	void onStableConfiguration(const std::string&) { std::cout << "onStableConfiguration" << std::endl; }
};
int main(int argc, char** argv) {
	Interpreter i = Interpreter::fromURL(argv[1]);
	Trace t; i.addMonitor(&t);
	InterpreterState s; int n = 0;
	while ((s = i.step(200)) != USCXML_FINISHED && n++ < 200) {}
	return 0;
}
