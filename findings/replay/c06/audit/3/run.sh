#!/bin/bash
# usage: run.sh <build-dir>
# Runs doc.scxml in the interpreter and model-checks the emitted Promela model.
# Exits 1 (defect shows) when the interpreter reaches "pass" but the model violates
# "eventually pass" (or vice versa); exits 0 when both agree.
B=${1:?usage: run.sh <build-dir>}
B=$(cd "$B" && pwd)
D=$(cd "$(dirname "$0")" && pwd)
W=$(mktemp -d /tmp/c06demo.XXXXXX)
cp "$D/doc.scxml" "$W/"; cd "$W"

echo "--- interpreter (uscxml-browser -v)"
timeout 60 "$B/bin/uscxml-browser" -v doc.scxml > int.log 2>&1
grep -E '^(Entering|Exiting): ' int.log | grep -v '/scxml' > int.trace
INT=$(grep -o 'Outcome: "[a-z]*"' int.log | tr -d '"' | awk '{print $2}' | tail -1)
paste -sd' ' int.trace | sed 's/Entering: /+/g; s/Exiting: /-/g'
echo "interpreter outcome: ${INT:-none}"

echo "--- Promela model (uscxml-transform -tpml, spin simulation)"
"$B/bin/uscxml-transform" -tpml -i doc.scxml -o doc.pml > tr.log 2>&1 || { cat tr.log; echo "transform failed"; exit 2; }
timeout 120 spin -T doc.pml > sim.log 2>&1
python3 - > mod.trace <<'PY'
import re
m={}
for l in open('doc.pml'):
    g=re.match(r'#define ROOT_\S+ (\d+) /\* index for state (\S+) \*/',l)
    if g: m[g.group(1)]=g.group(2)
for l in open('sim.log'):
    g=re.match(r'\s*(Entering|Exiting) state (\d+)',l)
    if g and g.group(2)!='0': print("%s: %s"%(g.group(1),m.get(g.group(2),'?'+g.group(2))))
PY
paste -sd' ' mod.trace | sed 's/Entering: /+/g; s/Exiting: /-/g'

echo "--- model checking ltl w3c { eventually pass }"
spin -a doc.pml > spin.log 2>&1 || { cat spin.log; echo "spin -a failed"; exit 2; }
gcc -O1 -DMEMLIM=1024 -DVECTORSZ=8192 -o pan pan.c > gcc.log 2>&1 || { tail gcc.log; exit 2; }
timeout 300 ./pan -a -m100000 -n -N w3c > pan.log 2>&1
grep -E 'acceptance cycle|errors:' pan.log
if grep -q 'errors: 0' pan.log; then MOD=pass; else MOD=notpass; fi
echo "model verdict: $MOD"

RC=0
if ! cmp -s int.trace mod.trace; then echo "DEFECT: entry/exit sequences of interpreter and model differ"; RC=1; fi
if [ "$INT" = pass ] && [ "$MOD" != pass ]; then echo "DEFECT: interpreter reaches pass, model does not"; RC=1; fi
if [ "$INT" != pass ] && [ "$MOD" = pass ]; then echo "DEFECT: model reaches pass, interpreter does not"; RC=1; fi
[ $RC = 0 ] && echo "interpreter and model agree"
rm -rf "$W"
exit $RC
