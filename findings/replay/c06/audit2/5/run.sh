#!/bin/bash
# usage: run.sh <build dir>; a namespace-prefixed document with <sc:if>..<sc:else/>: the Promela transformation must succeed and the
# model must reach pass like the interpreter
B=$(cd "$1" && pwd); D=$(cd "$(dirname "$0")" && pwd); T=$(mktemp -d)
"$B/bin/test-state-pass" "$D/prefixed_else.scxml" >/dev/null 2>&1; i=$?
"$B/bin/uscxml-transform" -tpml -i "$D/prefixed_else.scxml" -o "$T/m.pml" > "$T/t.log" 2>&1
if grep -q "error.execution" "$T/t.log"; then echo "DEFECT: the transformation fails on <sc:else/> (interpreter exit=$i)"; rm -rf "$T"; exit 1; fi
cd "$T" && spin -a m.pml >/dev/null 2>&1 && gcc -w -o pan pan.c >/dev/null 2>&1 && ./pan -a -N w3c > pan.log 2>&1
e=$(grep -c "errors: 0" pan.log)
echo "interpreter exit=$i (0 = pass), model verdict errors:0 = $e"
rc=0; [ "$i" = 0 ] && [ "$e" = 1 ] || rc=1
rm -rf "$T"; exit $rc
