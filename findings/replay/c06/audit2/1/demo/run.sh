#!/bin/bash
# usage: run.sh <build dir>
# Runs DOC through the interpreter (uscxml-browser) and through the emitted Promela model (spin simulation)
# and compares the final state reached. Exits 1 when they differ (defect shows), 0 when they agree.
B=${1:?build dir}
D=$(cd "$(dirname "$0")" && pwd)
DOC=$D/cond_or.scxml
W=$(mktemp -d)
cd $W

I=$(timeout 20 $B/bin/uscxml-browser $DOC 2>&1 | grep -ao 'Outcome: "[a-z]*"' | head -1 | sed 's/.*"\(.*\)"/\1/')
$B/bin/uscxml-transform -tpml -i $DOC -o model.pml >/dev/null 2>&1 || { echo "transform failed"; exit 2; }
PASS=$(grep -a '#define ROOT_PASS ' model.pml | awk '{print $3}')
FAIL=$(grep -a '#define ROOT_FAIL ' model.pml | awk '{print $3}')
timeout 60 spin -T model.pml > sim.txt 2>&1
echo "--- model trace (spin simulation) ---"
grep -aE "Entering state|Exiting state|Taking transition" sim.txt | tr '\n' ';' ; echo
M=none
grep -aq "Entering state $PASS\$" sim.txt && M=pass
grep -aq "Entering state $FAIL\$" sim.txt && M=fail
echo "interpreter reaches: $I"
echo "model reaches:       $M"

if [ "$I" != "$M" ]; then echo "DEFECT: model and interpreter diverge"; exit 1; fi
echo "no divergence"; exit 0
