#!/bin/sh
# usage: run.sh <build dir>   exit 1: defect shows, exit 0: behaviour as the property demands, exit 2: inconclusive
B=${1:?build dir}
D=$(cd "$(dirname "$0")" && pwd)
rc=0
for chart in "$D"/*.scxml; do
	echo "== $(basename $chart)"
	out=$(cd "$D" && timeout 60 "$B/bin/uscxml-browser" "$chart" 2>&1 | grep -v '^\[Info\]' | grep -v 'cannot bind')
	echo "$out"
	if echo "$out" | grep -q 'Outcome: "fail"'; then rc=1
	elif echo "$out" | grep -q 'Outcome: "pass"'; then :
	elif [ $rc -eq 0 ]; then rc=2; fi
done
[ $rc -eq 1 ] && echo "DEFECT SHOWN"
[ $rc -eq 0 ] && echo "no defect shown"
[ $rc -eq 2 ] && echo "inconclusive (no Outcome line)"
exit $rc
