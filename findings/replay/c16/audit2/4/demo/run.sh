#!/bin/bash
# usage: run.sh <build dir>; exit 0 = all numbers came back equal, non-zero = defect shows
B=${1:?build dir}
D=$(cd "$(dirname "$0")" && pwd)
PORT=$((20000 + RANDOM % 20000))
timeout 60 "$B/bin/uscxml-browser" -t $PORT "$D/numbers.scxml" > "$D/numbers.out" 2>&1
grep -E "DIFFERENCES|RESULT" "$D/numbers.out" | sed 's/; /;\n    /g'
if grep -q 'RESULT: "pass"' "$D/numbers.out"; then exit 0; fi
echo "DEFECT: real numbers do not survive the trip through the Lua datamodel"
exit 1
