#!/bin/bash
# usage: run.sh <build dir>; exit 0 = values survive, non-zero = defect shows
B=${1:?build dir}
D=$(cd "$(dirname "$0")" && pwd)
PORT=$((20000 + RANDOM % 20000))
rc=0

echo "== holes.scxml (positions of elements after one trip through <param> / <donedata>)"
timeout 60 "$B/bin/uscxml-browser" -t $PORT "$D/holes.scxml" > "$D/holes.out" 2>&1
grep -E "DIFFERENCES|RESULT" "$D/holes.out"
grep -q 'RESULT: "pass"' "$D/holes.out" || { echo "DEFECT: elements behind a hole moved to another index"; rc=1; }

echo "== sparse.scxml (two entries, key 3000000) with 1 GB of address space and 60 s"
( ulimit -v 1000000; timeout 60 "$B/bin/uscxml-browser" -t $PORT "$D/sparse.scxml" > "$D/sparse.out" 2>&1; echo "exit status $?" >> "$D/sparse.out" )
grep -E "STEP|sparse\[|RESULT|error|exit status" "$D/sparse.out"
grep -q 'RESULT: "pass"' "$D/sparse.out" || { echo "DEFECT: a two-element table did not get through (send lost after bad_alloc / wrong index / timeout)"; rc=1; }
exit $rc
