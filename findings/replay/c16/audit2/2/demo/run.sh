#!/bin/bash
# usage: run.sh <build dir>; exit 0 = every foreach saw its items, non-zero = defect shows
B=${1:?build dir}
D=$(cd "$(dirname "$0")" && pwd)
PORT=$((20000 + RANDOM % 20000))
timeout 60 "$B/bin/uscxml-browser" -t $PORT "$D/foreach.scxml" > "$D/foreach.out" 2>&1
grep -E "array=|RESULT|error" "$D/foreach.out"
if grep -q 'RESULT: "pass"' "$D/foreach.out"; then exit 0; fi
echo "DEFECT: <foreach> over an array expression ran its body without ever assigning item / index"
exit 1
