#!/bin/bash
# usage: run.sh <build dir>; exit 0 = payloads stayed data, non-zero = defect shows
B=${1:?build dir}
D=$(cd "$(dirname "$0")" && pwd)
PORT=$((20000 + RANDOM % 20000))
URL=http://127.0.0.1:$PORT/victim/basichttp
post() { curl -s -m 5 -o /dev/null -X POST -H 'Content-Type: application/json' -H "_scxmleventname: $1" --data @"$D/$2" $URL; }

"$B/bin/uscxml-browser" -t $PORT "$D/victim.scxml" > "$D/victim.out" 2>&1 &
PID=$!
for i in $(seq 100); do grep -q READY "$D/victim.out" && break; sleep 0.2; done; sleep 0.5

# 1. well-formed JSON, Lua code inside a *string*: must stay a string (it does)
post ev payload1.json; sleep 0.5
# 2. the same text as a bare token (jsmn is built non-strict and accepts it as a "primitive")
post ev payload2.json; sleep 0.5
# 3. and one that ends the process
post ev payload3.json; sleep 1

if kill -0 $PID 2>/dev/null; then post quit payload1.json; sleep 0.5; kill $PID 2>/dev/null; wait $PID; STATUS=alive; else wait $PID; STATUS=$?; fi
grep -E "RECEIVED|secret|\[|\]|\"s\"|\"a\"" "$D/victim.out" | grep -v Info
echo "browser: $STATUS"
rc=0
grep -q 'secret: "set_by_the_HTTP_client"' "$D/victim.out" && { echo "DEFECT: a token of the JSON payload was executed as Lua code and changed a chart variable"; rc=1; }
[ "$STATUS" = 42 ] && { echo "DEFECT: the payload {\"a\":os.exit(42)} terminated the interpreter process with status 42"; rc=1; }
exit $rc
