#include "uscxml/uscxml.h"
#include <iostream>
using namespace uscxml;
int main(int argc, char** argv) {
	const char* xml = "<scxml xmlns=\"http://www.w3.org/2005/07/scxml\" version=\"1.0\" datamodel=\"null\" initial=\"s0\"><state id=\"s0\"><onexit><log label=\"x\" expr=\"exit s0\"/></onexit><transition event=\"go\" target=\"done\"/></state><final id=\"done\"/></scxml>";
	{ Interpreter i = Interpreter::fromXML(xml, ""); Event e; e.name = "go"; i.receive(e); InterpreterState s; int n = 0; while ((s = i.step(100)) != USCXML_FINISHED && n++ < 50) {} std::cout << "receive-before-step: finished=" << (s == USCXML_FINISHED) << std::endl; }
	{ Interpreter i = Interpreter::fromXML(xml, ""); i.cancel(); InterpreterState s; int n = 0; while ((s = i.step(100)) != USCXML_FINISHED && n++ < 50) {} std::cout << "cancel-before-step: finished=" << (s == USCXML_FINISHED) << std::endl; }
	{ Interpreter i = Interpreter::fromXML(xml, ""); i.reset(); std::cout << "reset-before-step ok" << std::endl; }
	{ Interpreter i = Interpreter::fromXML(xml, ""); } std::cout << "destroy-before-step ok" << std::endl;
	return 0;
}
