/* Replay helper (not part of any check): drives the C machine emitted by `uscxml-transform -tc` with the external events
   given on the command line and prints the configuration after each of them.
   build: cc -I<dir of gen.c> c_harness.c -o c_harness ; run: ./c_harness n out back */
#include <stdio.h>
#include <string.h>
#include "gen.c"
static char** evs; static int nev, pos;
static void* deq_ext(const uscxml_ctx* ctx) { if (pos < nev) return evs[pos++]; return NULL; }
static int matched(const uscxml_ctx* ctx, const uscxml_transition* t, const void* e) { return t->event && strcmp(t->event, (const char*)e) == 0; }
static void show(const uscxml_ctx* ctx, const char* after) {
	printf("after %-6s:", after);
	for (size_t i = 0; i < ctx->machine->nr_states; i++) if (BIT_HAS(i, ctx->config)) printf(" %s", ctx->machine->states[i].name ? ctx->machine->states[i].name : "(scxml)");
	printf("\n");
}
int main(int argc, char** argv) {
	uscxml_ctx ctx; memset(&ctx, 0, sizeof(ctx));
	ctx.machine = &USCXML_MACHINE; ctx.dequeue_external = deq_ext; ctx.is_matched = matched;
	evs = argv + 1; nev = argc - 1; pos = 0;
	int rc, guard = 0, shown = -1;
	while ((rc = uscxml_step(&ctx)) == USCXML_ERR_OK && guard++ < 1000) { if (pos != shown) { shown = pos; } }
	/* USCXML_ERR_IDLE: nothing more to do */
	show(&ctx, nev ? evs[nev - 1] : "init");
	return 0;
}
