#!/bin/sh
# usage: run.sh <build dir>
# Exits non-zero when the exit set embedded for the transition a1 -> h (deep history of P,
# effective target a2) contains the state a, and the generated C runs a's onexit handler.
B=${1:?build dir}
D=$(cd "$(dirname "$0")" && pwd)
T=$(mktemp -d)
"$B/bin/uscxml-transform" -tc -a "$T/ann.scxml" -i "$D/deephist.scxml" -o "$T/gen.c" >/dev/null 2>&1 || { echo "transform failed"; exit 2; }
echo "states by document order:"
grep -o '<[a-z]* [^>]*documentOrder="[0-9]*"[^>]*>' "$T/ann.scxml" | grep -v '<transition' | sed 's/.*documentOrder="\([0-9]*\)".*id="\([A-Za-z0-9]*\)".*/  \1 \2/;s/.*<scxml.*/  0 (scxml)/'
tr=$(grep -o '<transition[^>]*event="e"[^>]*>' "$T/ann.scxml")
echo "$tr"
ex=$(echo "$tr" | sed 's/.*exitSetBools="\([01]*\)".*/\1/')
ai=$(grep -o '<state [^>]*id="a"[^>]*>' "$T/ann.scxml" | sed 's/.*documentOrder="\([0-9]*\)".*/\1/')
bit=$(echo "$ex" | cut -c$((ai+1)))
echo "exit set of a1->h: $ex ; bit of state a (document order $ai): $bit ; expected 0 (domain is a)"
gcc -w -DGENFILE="\"$T/gen.c\"" "$D/harness.c" -o "$T/gen.bin" || { echo "cc failed"; exit 2; }
"$T/gen.bin" e | head -20 | tee "$T/trace"
rc=0
[ "$bit" = 1 ] && { echo "DEFECT: exit set table of a1->h contains a"; rc=1; }
grep -q '^LOG exit a$' "$T/trace" && { echo "DEFECT: generated C exits and re-enters a"; rc=1; }
rm -rf "$T"; exit $rc
