#!/bin/sh
# usage: run.sh <build dir>
# A chain of N nested <state>s (N+1 states, no transitions). Exits non-zero when the time of
# uscxml-transform -tc grows by about 3x per nesting level / a 17 deep chart does not finish in 25s.
B=${1:?build dir}
D=$(cd "$(dirname "$0")" && pwd)
T=$(mktemp -d)
now() { date +%s.%N; }
for d in 2 11 13 15; do
  python3 "$D/gen.py" $d > "$T/deep$d.scxml"
  s=$(now); "$B/bin/uscxml-transform" -tc -i "$T/deep$d.scxml" -o "$T/deep$d.c" >/dev/null 2>&1; e=$(now)
  eval t$d=$(echo "$e - $s" | bc -l)
  eval echo "depth $d: \$t$d s"
done
python3 "$D/gen.py" 17 > "$T/deep17.scxml"
timeout 25 "$B/bin/uscxml-transform" -tc -i "$T/deep17.scxml" -o "$T/deep17.c" >/dev/null 2>&1
rc17=$?
rm -rf "$T"
ratio=$(echo "($t15 - $t2) / ($t13 - $t2 + 0.001)" | bc -l)
echo "growth for two more levels (15 vs 13, start-up time subtracted): x$ratio"
if [ $rc17 -eq 124 ]; then echo "DEFECT: 18 states nested 17 deep: no output after 25 s"; exit 1; fi
if [ "$(echo "$ratio > 5" | bc -l)" = 1 ]; then echo "DEFECT: exponential growth in nesting depth"; exit 1; fi
echo ok; exit 0
