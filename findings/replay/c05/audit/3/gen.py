import sys
d=int(sys.argv[1])
s='<scxml xmlns="http://www.w3.org/2005/07/scxml" version="1.0" datamodel="null">'
for i in range(d): s+='<state id="s%d">'%i
s+='</state>'*d+'</scxml>'
sys.stdout.write(s)
