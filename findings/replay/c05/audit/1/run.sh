#!/bin/sh
# usage: run.sh <build dir>
# Exits non-zero when the VHDL back-end lists a targetless transition among the
# transitions that put a state into the entry set.
B=${1:?build dir}
D=$(cd "$(dirname "$0")" && pwd)
T=$(mktemp -d)
"$B/bin/uscxml-transform" -tvhdl -a "$T/ann.scxml" -i "$D/targetless.scxml" -o "$T/out.vhdl" >/dev/null 2>&1 || { echo "transform failed"; exit 2; }
# transition with postFixOrder 1 is <transition event="stay"/> (no target, no targetBools)
grep -o '<transition[^>]*event="stay"[^>]*>' "$T/ann.scxml"
echo "--- entry-set-up equation of state 3 (id c) in the VHDL:"
awk '/in_complete_entry_set_up_3_sig <=/{p=1} p{print} p&&/^;/{exit}' "$T/out.vhdl"
if awk '/in_complete_entry_set_up_[0-9]+_sig <=/{p=1} p&&/in_optimal_transition_set_1_sig/{f=1} /^;/{p=0} END{exit f?0:1}' "$T/out.vhdl"; then
  echo "DEFECT: targetless transition 1 (event 'stay') drives an in_complete_entry_set_up_* signal"
  rm -rf "$T"; exit 1
fi
echo "ok: targetless transition enters no state"
rm -rf "$T"; exit 0
