#!/bin/sh
# usage: run.sh <build dir>
# The same chart once with the default namespace and once with an "sc:" prefix.
# Exits non-zero when the C / Promela tables of the two differ in the pseudo-state kinds
# and the generated C misbehaves for the prefixed one.
B=${1:?build dir}
D=$(cd "$(dirname "$0")" && pwd)
T=$(mktemp -d)
for n in prefixed unprefixed; do
  "$B/bin/uscxml-transform" -tc   -i "$D/$n.scxml" -o "$T/$n.c"   >/dev/null 2>&1 || { echo "transform c failed"; exit 2; }
  "$B/bin/uscxml-transform" -tpml -i "$D/$n.scxml" -o "$T/$n.pml" >/dev/null 2>&1 || { echo "transform pml failed"; exit 2; }
  echo "== $n: C state types / transition types"
  grep -E '/\* type       \*/' "$T/$n.c" | tr -s ' ' | tr '\n' ' '; echo
  echo "== $n: Promela type initialisers"
  grep -E '\.type\[USCXML_(STATE_INITIAL|STATE_COMPOUND|TRANS_INITIAL)\] = 1' "$T/$n.pml" | tr -s ' ' | tr '\n' ' '; echo
  gcc -w -DGENFILE="\"$T/$n.c\"" "$D/harness.c" -o "$T/$n.bin" || { echo "cc failed"; exit 2; }
  "$T/$n.bin" e | head -8 > "$T/$n.trace"
  echo "== $n: run of the generated C with external event e (first lines)"; cat "$T/$n.trace"
done
rc=0
grep -E '/\* type       \*/' "$T/prefixed.c"   | grep -q USCXML_STATE_INITIAL || { echo "DEFECT: C: <sc:initial> is not typed USCXML_STATE_INITIAL"; rc=1; }
grep -E '/\* type       \*/' "$T/prefixed.c"   | grep -q USCXML_TRANS_INITIAL || { echo "DEFECT: C: transition in <sc:initial> lacks USCXML_TRANS_INITIAL (Promela sets it)"; rc=1; }
grep -q 'type\[USCXML_STATE_INITIAL\] = 1' "$T/prefixed.pml" || { echo "DEFECT: Promela: <sc:initial> is not typed USCXML_STATE_INITIAL"; rc=1; }
grep -q '^CONFIG - done' "$T/prefixed.trace" || { echo "DEFECT: generated C of the prefixed chart never reaches 'done' (unprefixed does)"; rc=1; }
rm -rf "$T"
exit $rc
