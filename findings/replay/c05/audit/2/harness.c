/* minimal driver for uscxml generated C (null datamodel): events from argv */
#include <stdio.h>
#include <string.h>
#include <stdlib.h>
#include GENFILE

static const char* iq[256]; static int iqh = 0, iqt = 0;
static char** ext; static int extn, exti = 0;
static char donebuf[64][128]; static int donen = 0;

static void* deq_int(const uscxml_ctx* ctx) { (void)ctx; if (iqh < iqt) { const char* e = iq[iqh++]; printf("  [int event %s]\n", e); return (void*)e; } return NULL; }
static void* deq_ext(const uscxml_ctx* ctx) { (void)ctx; if (exti < extn) { const char* e = ext[exti++]; printf("  [ext event %s]\n", e); return (void*)e; } return NULL; }
static int matched(const uscxml_ctx* ctx, const uscxml_transition* t, const void* ev) {
    const char* e = (const char*)ev; const char* d = t->event; (void)ctx;
    while (*d) {
        const char* end = strchr(d, ' '); size_t n = end ? (size_t)(end - d) : strlen(d);
        char tok[128]; memcpy(tok, d, n); tok[n] = 0;
        if (n && tok[n-1] == '*') tok[--n] = 0;
        if (n && tok[n-1] == '.') tok[--n] = 0;
        if (n == 0) return 1;
        if (strncmp(e, tok, n) == 0 && (e[n] == 0 || e[n] == '.')) return 1;
        d += (end ? n + 1 : strlen(d)); while (*d == ' ') d++;
        if (!end) break;
    }
    return 0;
}
static int is_true(const uscxml_ctx* ctx, const char* expr) { (void)ctx; (void)expr; return 1; }
static int done_ev(const uscxml_ctx* ctx, const uscxml_state* s, const uscxml_elem_donedata* dd) {
    (void)ctx; (void)dd; snprintf(donebuf[donen], 128, "done.state.%s", s->name ? s->name : "?"); iq[iqt++] = donebuf[donen++]; return USCXML_ERR_OK; }
static int do_log(const uscxml_ctx* ctx, const char* label, const char* expr) { (void)ctx; printf("LOG %s %s\n", label ? label : "", expr ? expr : ""); return USCXML_ERR_OK; }
static int do_raise(const uscxml_ctx* ctx, const char* ev) { (void)ctx; iq[iqt++] = ev; return USCXML_ERR_OK; }

static void print_config(uscxml_ctx* ctx) {
    size_t i; printf("CONFIG");
    for (i = 0; i < ctx->machine->nr_states; i++) if (BIT_HAS(i, ctx->config)) printf(" %s", ctx->machine->states[i].name ? ctx->machine->states[i].name : "-");
    printf("\n");
}
int main(int argc, char** argv) {
    uscxml_ctx ctx; int err; int guard = 0;
    memset(&ctx, 0, sizeof(ctx));
    ctx.machine = &USCXML_MACHINE;
    ctx.dequeue_internal = deq_int; ctx.dequeue_external = deq_ext; ctx.is_matched = matched; ctx.is_true = is_true;
    ctx.raise_done_event = done_ev; ctx.exec_content_log = do_log; ctx.exec_content_raise = do_raise;
    ext = argv + 1; extn = argc - 1;
    while ((err = uscxml_step(&ctx)) == USCXML_ERR_OK && guard++ < 1000) print_config(&ctx);
    print_config(&ctx);
    printf("END err=%d\n", err);
    return 0;
}
