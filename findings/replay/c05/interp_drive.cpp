// Replay helper: interprets a document with both engines, feeds the external events given on the command line and prints
// the configuration (argv[1] = document, argv[2..] = event names)
#include "uscxml/uscxml.h"
#include "uscxml/interpreter/FastMicroStep.h"
#include "uscxml/interpreter/LargeMicroStep.h"
#include "uscxml/interpreter/InterpreterImpl.h"
#include <iostream>
using namespace uscxml;
static std::string run(int argc, char** argv, bool fast) {
	Interpreter i = Interpreter::fromURL(argv[1]);
	ActionLanguage al;
	if (fast) al.microStepper = MicroStep(std::shared_ptr<MicroStepImpl>(new FastMicroStep(i.getImpl().get())));
	else al.microStepper = MicroStep(std::shared_ptr<MicroStepImpl>(new LargeMicroStep(i.getImpl().get())));
	i.setActionLanguage(al);
	InterpreterState s; int n = 0;
	while ((s = i.step(0)) != USCXML_IDLE && s != USCXML_FINISHED && n++ < 100) {}
	for (int k = 2; k < argc; k++) {
		Event e; e.name = argv[k]; i.receive(e);
		n = 0; while ((s = i.step(0)) != USCXML_IDLE && s != USCXML_FINISHED && n++ < 100) {}
	}
	std::string out;
	for (auto st : i.getConfiguration()) out += ATTR(st, X("id")) + " ";
	return out;
}
int main(int argc, char** argv) {
	std::cout << "large: " << run(argc, argv, false) << "\nfast:  " << run(argc, argv, true) << std::endl;
	return 0;
}
