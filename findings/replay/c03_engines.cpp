// prints the events processed by each engine for the same document and input (replay for C03)
#include "uscxml/uscxml.h"
#include "uscxml/interpreter/InterpreterMonitor.h"
#include "uscxml/interpreter/FastMicroStep.h"
#include "uscxml/interpreter/LargeMicroStep.h"
#include "uscxml/interpreter/InterpreterImpl.h"
#include <iostream>
using namespace uscxml;
struct Ev : public InterpreterMonitor { std::string trace; void beforeProcessingEvent(const std::string&, const Event& e) { trace += e.name + " "; } };
static std::string run(const char* file, bool fast) {
	Interpreter i = Interpreter::fromURL(file);
	ActionLanguage al;
	if (fast) al.microStepper = MicroStep(std::shared_ptr<MicroStepImpl>(new FastMicroStep(i.getImpl().get())));
	else al.microStepper = MicroStep(std::shared_ptr<MicroStepImpl>(new LargeMicroStep(i.getImpl().get())));
	i.setActionLanguage(al);
	Ev m; i.addMonitor(&m);
	InterpreterState s; int n = 0;
	while ((s = i.step(0)) != USCXML_IDLE && s != USCXML_FINISHED && n++ < 100) {}
	Event e; e.name = "e"; i.receive(e);
	n = 0; while ((s = i.step(0)) != USCXML_IDLE && s != USCXML_FINISHED && n++ < 100) {}
	return m.trace;
}
int main(int argc, char** argv) {
	std::string l = run(argv[1], false), f = run(argv[1], true);
	std::cout << "large: " << l << "\nfast:  " << f << "\n" << (l == f ? "SAME" : "DIFFERENT") << std::endl;
	return l == f ? 0 : 1;
}
