// Replay for C14 findings: a pending delayed send does not survive serialize()/deserialize().
#include "uscxml/uscxml.h"
#include <chrono>
#include <iostream>
#include <thread>
#include <unistd.h>
using namespace uscxml;
int main(int argc, char** argv) {
	std::thread([] { std::this_thread::sleep_for(std::chrono::seconds(20)); std::cout << "HANG" << std::endl; _exit(3); }).detach();
	std::string state;
	{
		Interpreter a = Interpreter::fromURL(argv[1]);
		InterpreterState s; int n = 0;
		while ((s = a.step(0)) != USCXML_IDLE && s != USCXML_FINISHED && n++ < 100) {}
		state = a.serialize();
		std::cout << "serialized at IDLE; state string mentions the delayed event: " << (state.find("later") != std::string::npos) << std::endl;
	}
	Interpreter b = Interpreter::fromURL(argv[1]);
	b.deserialize(state);
	auto end = std::chrono::steady_clock::now() + std::chrono::seconds(4);
	InterpreterState s = USCXML_UNDEF;
	while (s != USCXML_FINISHED && std::chrono::steady_clock::now() < end) s = b.step(100);
	std::cout << "resumed interpreter " << (s == USCXML_FINISHED ? "received the delayed event and finished" : "never received the delayed event (still in s0 after 4 s)") << std::endl;
	return s == USCXML_FINISHED ? 0 : 1;
}
