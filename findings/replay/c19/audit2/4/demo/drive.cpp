// drive <file> <large|fast> [event ...]
#include "uscxml/uscxml.h"
#include "uscxml/Interpreter.h"
#include "uscxml/debug/InterpreterIssue.h"
#include "uscxml/interpreter/InterpreterImpl.h"
#include "uscxml/interpreter/FastMicroStep.h"
#include "uscxml/interpreter/LargeMicroStep.h"
#include <iostream>
using namespace uscxml;
static void printConf(Interpreter& i, const char* tag) {
	std::cout << tag << " {";
	for (auto e : i.getConfiguration()) {
		std::cout << " " << (HAS_ATTR(e, kXMLCharId) ? ATTR(e, kXMLCharId) : "<" + std::string(X(e->getLocalName())) + ">");
	}
	std::cout << " }" << std::endl;
}
int main(int argc, char** argv) {
	try {
		Interpreter interp = Interpreter::fromURL(argv[1]);
		int fatal = 0;
		for (auto& is : interp.validate()) { std::cout << is << std::endl; if (is.severity == InterpreterIssue::USCXML_ISSUE_FATAL) fatal++; }
		std::cout << "FATALS " << fatal << std::endl;
		if (argc < 3) return 0;
		std::string eng = argv[2];
		if (eng == "none") return 0;
		Interpreter run = Interpreter::fromURL(argv[1]);
		ActionLanguage al;
		if (eng == "fast") al.microStepper = MicroStep(std::shared_ptr<MicroStepImpl>(new FastMicroStep(run.getImpl().get())));
		else al.microStepper = MicroStep(std::shared_ptr<MicroStepImpl>(new LargeMicroStep(run.getImpl().get())));
		run.setActionLanguage(al);
		int evIdx = 3; int steps = 0;
		InterpreterState st;
		while (steps++ < 200) {
			st = run.step(0);
			if (st == USCXML_FINISHED) { printConf(run, "FINISHED"); break; }
			if (st == USCXML_MACROSTEPPED) printConf(run, "MACRO");
			if (st == USCXML_IDLE) {
				printConf(run, "IDLE");
				if (evIdx < argc) { Event e; e.name = argv[evIdx++]; e.eventType = Event::EXTERNAL; std::cout << "send " << e.name << std::endl; run.receive(e);} else break;
			}
		}
		if (steps >= 200) std::cout << "STEP LIMIT" << std::endl;
	} catch (Event e) { std::cout << "EXC Event " << e << std::endl; return 3; }
	catch (std::exception& e) { std::cout << "EXC std " << e.what() << std::endl; return 4; }
	catch (...) { std::cout << "EXC unknown" << std::endl; return 5; }
	return 0;
}
