#!/bin/bash
# Defect 4: an unsupported <send type> is reported FATAL although the recommendation defines the
# run-time behaviour (error.execution) and the interpreter implements it.
. "$(dirname "$0")/common.sh"
bad=0
for doc in send_unsupported_type w3c_lua_test199; do
	for e in large fast; do
		echo "--- $doc.scxml, $e engine"
		out=$(drive "$D/$doc.scxml" $e); echo "$out" | grep -E "^(Issue|FATALS|MACRO|IDLE|FINISHED)"
		if echo "$out" | grep -q "^FINISHED { <scxml> pass }" && echo "$out" | grep -q "Issue (FATAL)"; then
			echo "DEFECT: FATAL (\"interpreter can not process such a document\") on a chart that runs to 'pass'"; bad=1
		fi
	done
done
exit $bad
