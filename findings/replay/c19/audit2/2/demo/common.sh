# sourced by run.sh: builds the driver against the (unmodified) build given as $1
B=${1:?usage: run.sh <build dir>}
B=$(cd "$B" && pwd)
D=$(cd "$(dirname "$0")" && pwd)
SRC=$(sed -n 's/^CMAKE_HOME_DIRECTORY:INTERNAL=//p' "$B/CMakeCache.txt")
[ -d "$SRC/src/uscxml" ] || SRC=$(dirname "$B")
T=$(mktemp -d)
trap 'rm -rf "$T"' EXIT
g++ -g -O0 -std=gnu++11 -w -I"$SRC/src" -I"$B" -I"$SRC/contrib/src" -DXERCESC_NS=xercesc_3_2 "$D/drive.cpp" -o "$T/drive" \
    -L"$B/lib" -luscxml -lxerces-c -Wl,-rpath,"$B/lib" || { echo "cannot build driver"; exit 99; }
# drive <doc> <large|fast|none> [events...]: prints validate() issues, "FATALS n", then the configuration after every macrostep
drive() { timeout 60 "$T/drive" "$@" 2>&1 | grep -v "Registering at unstarted"; return ${PIPESTATUS[0]}; }
