#!/bin/bash
# Defect 2: elements of foreign namespaces inside <data>/<content> are validated as if they were SCXML elements.
. "$(dirname "$0")/common.sh"
bad=0
for doc in payload_prefixed payload_xhtml; do
	for e in large fast; do
		echo "--- $doc.scxml, $e engine, event go"
		out=$(drive "$D/$doc.scxml" $e go); echo "$out" | grep -v "^\[" 
		if echo "$out" | grep -q "^FINISHED { <scxml> done }" && echo "$out" | grep -qE "Issue \(FATAL\)|Syntax error"; then
			echo "DEFECT: the valid chart runs to { done }, yet validation reports fatal issues / a syntax error for the payload"; bad=1
		fi
	done
done
exit $bad
