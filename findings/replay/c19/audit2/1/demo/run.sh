#!/bin/bash
# Defect 1: SCXML elements written with another prefix than the root are validated but unknown to the engines.
. "$(dirname "$0")/common.sh"
bad=0

echo "--- uscxml-browser -c prefix_all.scxml"
"$B/bin/uscxml-browser" -c "$D/prefix_all.scxml" 2>&1 | grep -E "Issue|No issues"
echo "--- uscxml-browser prefix_all.scxml (default engine)"
timeout 20 "$B/bin/uscxml-browser" "$D/prefix_all.scxml" >/dev/null 2>&1; rc=$?
echo "exit status $rc"
[ $rc -eq 139 ] && { echo "DEFECT: no validation issue, interpreter dies with SIGSEGV at initialisation"; bad=1; }

echo "--- driver, prefix_all.scxml, large engine"
drive "$D/prefix_all.scxml" large go; rc=$?
echo "exit status $rc"
[ $rc -ge 128 ] && bad=1

echo "--- driver, prefix_all.scxml, fast engine"
out=$(drive "$D/prefix_all.scxml" fast go); echo "$out"
if echo "$out" | grep -q "^FATALS 0" && echo "$out" | grep -q "^IDLE { }"; then
	echo "DEFECT: no fatal issue, machine idles in the empty configuration"; bad=1
fi

for e in large fast; do
	echo "--- driver, prefix_one.scxml, $e engine, event go"
	out=$(drive "$D/prefix_one.scxml" $e go); echo "$out"
	if echo "$out" | grep -q "^FATALS 0" && ! echo "$out" | grep -q "^IDLE {.* b "; then
		echo "DEFECT: no issue reported, but target state b is unknown to the engine: the transition on 'go' never reaches b"; bad=1
	fi
done
exit $bad
