#!/bin/bash
# Defect 3: a <state> below a non-state element is only a WARNING, its id counts as a legal target;
# the default engine dereferences NULL at initialisation, the fast engine reaches an illegal configuration.
. "$(dirname "$0")/common.sh"
bad=0
for doc in misplaced_datamodel misplaced_content misplaced_donedata; do
	echo "--- uscxml-browser $doc.scxml (default engine)"
	"$B/bin/uscxml-browser" -c "$D/$doc.scxml" 2>&1 | grep -E "Issue|No issues"
	timeout 20 "$B/bin/uscxml-browser" "$D/$doc.scxml" >/dev/null 2>&1; rc=$?
	echo "exit status $rc"
	fat=$("$B/bin/uscxml-browser" -c "$D/$doc.scxml" 2>&1 | grep -c "Issue (FATAL)")
	if [ "$fat" -eq 0 ] && [ $rc -eq 139 ]; then echo "DEFECT: no fatal issue, SIGSEGV at initialisation"; bad=1; fi
	echo "--- driver, $doc.scxml, fast engine, event go"
	out=$(drive "$D/$doc.scxml" fast go); echo "$out" | grep -E "^(FATALS|MACRO|IDLE|FINISHED|send)"
	if echo "$out" | grep -q "^FATALS 0" && echo "$out" | grep -qE "^IDLE \{.* x "; then
		echo "DEFECT: no fatal issue, x (no child of any state) is active: illegal configuration"; bad=1
	fi
done
exit $bad
