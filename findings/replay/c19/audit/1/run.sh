#!/bin/bash
# usage: run.sh <build dir>   -- exits 1 when the defect shows, 0 otherwise
B=$(cd "${1:?build dir}" && pwd)
SRC=$(sed -n 's/^CMAKE_HOME_DIRECTORY:INTERNAL=//p' "$B/CMakeCache.txt")
HERE=$(cd "$(dirname "$0")" && pwd)
export USCXML_NOCACHE_FILES=YES
TMP=$(mktemp -d)
g++ -std=gnu++11 -w -DXERCESC_NS=xercesc_3_2 -I"$SRC/src" -I"$B" -I"$SRC/contrib/src" "$HERE/vr.cpp" -o "$TMP/vr" \
    -L"$B/lib" -luscxml -lxerces-c -Wl,-rpath,"$B/lib" || { echo "cannot build harness"; exit 2; }
rc=0
echo "--- contrast: <state initial=\"a1 a2\"> is rejected"
"$TMP/vr" "$HERE/state_initial.scxml" none 2>&1 | grep -E "Issue|VALIDATION"
for engine in large fast; do
  echo "--- <scxml initial=\"a1 a2\">, engine=$engine"
  out=$("$TMP/vr" "$HERE/root_initial.scxml" $engine 2>&1 | grep -E "Issue|VALIDATION|config|EXCEPTION")
  echo "$out"
  if echo "$out" | grep -q "VALIDATION fatals=0" && echo "$out" | grep -Eq "config:.* a1 a2"; then
    echo "DEFECT: no fatal issue, yet siblings a1 and a2 of compound state a are active together"
    rc=1
  fi
done
rm -rf "$TMP"
exit $rc
