// validate, then run (with given micro stepper) a document; print issues and configurations
#include "uscxml/uscxml.h"
#include "uscxml/debug/InterpreterIssue.h"
#include "uscxml/interpreter/InterpreterMonitor.h"
#include "uscxml/interpreter/FastMicroStep.h"
#include "uscxml/interpreter/LargeMicroStep.h"
#include "uscxml/interpreter/InterpreterImpl.h"
#include <iostream>
#include <fstream>
#include <sstream>
using namespace uscxml;

int main(int argc, char** argv) {
	std::string file = argv[1];
	std::string engine = argc > 2 ? argv[2] : "large";
	int maxSteps = argc > 3 ? atoi(argv[3]) : 30;
	int fatals = 0, syntax = 0;
	try {
		Interpreter interp = Interpreter::fromURL(file);
		std::list<InterpreterIssue> issues = interp.validate();
		for (auto& i : issues) {
			std::cout << i << std::endl;
			if (i.severity == InterpreterIssue::USCXML_ISSUE_FATAL) fatals++;
			if (i.message.find("Syntax error") != std::string::npos) syntax++;
		}
		std::cout << "VALIDATION fatals=" << fatals << " syntaxwarn=" << syntax << std::endl;
		if (engine == "none") return 0;
		Interpreter run = Interpreter::fromURL(file);
		ActionLanguage al;
		if (engine == "fast")
			al.microStepper = MicroStep(std::shared_ptr<MicroStepImpl>(new FastMicroStep((MicroStepCallbacks*)run.getImpl().get())));
		else
			al.microStepper = MicroStep(std::shared_ptr<MicroStepImpl>(new LargeMicroStep((MicroStepCallbacks*)run.getImpl().get())));
		run.setActionLanguage(al);
		InterpreterState st = USCXML_UNDEF;
		int idles = 0;
		for (int n = 0; n < maxSteps && st != USCXML_FINISHED; n++) {
			// non-blocking while busy; once idle wait up to 100ms per step for events of invoked children
			st = run.step(st == USCXML_IDLE ? 100 : 0);
			std::list<XERCESC_NS::DOMElement*> conf = run.getConfiguration();
			std::cout << "step " << n << " state=" << st << " config:";
			for (auto e : conf) std::cout << " " << (HAS_ATTR(e, kXMLCharId) ? ATTR(e, kXMLCharId) : std::string("<") + (std::string)X(e->getLocalName()) + ">");
			std::cout << std::endl;
			if (st == USCXML_FINISHED) break;
			if (st == USCXML_IDLE && ++idles >= 10) break;
		}
	} catch (Event e) {
		std::cout << "EXCEPTION Event: " << e << std::endl;
		return 3;
	} catch (std::exception& e) {
		std::cout << "EXCEPTION std: " << e.what() << std::endl;
		return 4;
	}
	return 0;
}
