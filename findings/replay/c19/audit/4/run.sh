#!/bin/bash
# usage: run.sh <build dir>   -- exits 1 when the defect shows, 0 otherwise
B=$(cd "${1:?build dir}" && pwd)
SRC=$(sed -n 's/^CMAKE_HOME_DIRECTORY:INTERNAL=//p' "$B/CMakeCache.txt")
HERE=$(cd "$(dirname "$0")" && pwd)
export USCXML_NOCACHE_FILES=YES
grep -q "define WITH_DM_LUA" "$B/uscxml/config.h" || { echo "build has no Lua datamodel, cannot demonstrate"; exit 0; }
TMP=$(mktemp -d)
g++ -std=gnu++11 -w -DXERCESC_NS=xercesc_3_2 -I"$SRC/src" -I"$B" -I"$SRC/contrib/src" "$HERE/vr.cpp" -o "$TMP/vr" \
    -L"$B/lib" -luscxml -lxerces-c -Wl,-rpath,"$B/lib" || { echo "cannot build harness"; exit 2; }
out=$(timeout 60 "$TMP/vr" "$HERE/lua_exprs.scxml" large 60 2>&1 | grep -E "Issue|VALIDATION|config|EXCEPTION|Error")
echo "$out"
rm -rf "$TMP"
n=$(echo "$out" | grep -c "Syntax error in")
if [ "$n" -gt 0 ] && echo "$out" | grep -q "state=-1 config: <scxml> pass"; then
  echo "DEFECT: $n 'Syntax error' warnings for Lua expressions that the Lua datamodel evaluates without error (chart reached 'pass')"
  exit 1
fi
exit 0
