#!/bin/bash
# usage: run.sh <build dir>   -- exits 1 when the defect shows, 0 otherwise
B=$(cd "${1:?build dir}" && pwd)
HERE=$(cd "$(dirname "$0")" && pwd)
export USCXML_NOCACHE_FILES=YES
rc=0
for doc in dangling_root_initial dangling_state_initial; do
  echo "--- uscxml-browser -c $doc.scxml  (validate only)"
  "$B/bin/uscxml-browser" -c "$HERE/$doc.scxml" 2>&1 | grep -E "Issue|FATAL" 
  st=${PIPESTATUS[0]}
  echo "exit status $st"
  if [ $st -ge 128 ]; then
    echo "DEFECT: validation was killed by signal $((st-128)) instead of reporting the dangling initial state"
    rc=1
  fi
done
if command -v gdb >/dev/null; then
  echo "--- backtrace"
  gdb -batch -ex run -ex bt --args "$B/bin/uscxml-browser" -c "$HERE/dangling_root_initial.scxml" 2>&1 | grep -E "^#[0-4] |SIGSEGV"
fi
exit $rc
