#!/bin/bash
# usage: run.sh <build dir>   -- exits 1 when the defect shows, 0 otherwise
B=$(cd "${1:?build dir}" && pwd)
SRC=$(sed -n 's/^CMAKE_HOME_DIRECTORY:INTERNAL=//p' "$B/CMakeCache.txt")
HERE=$(cd "$(dirname "$0")" && pwd)
export USCXML_NOCACHE_FILES=YES
TMP=$(mktemp -d)
g++ -std=gnu++11 -w -DXERCESC_NS=xercesc_3_2 -I"$SRC/src" -I"$B" -I"$SRC/contrib/src" "$HERE/vr.cpp" -o "$TMP/vr" \
    -L"$B/lib" -luscxml -lxerces-c -Wl,-rpath,"$B/lib" || { echo "cannot build harness"; exit 2; }
rc=0

echo "--- (a) valid document, child machine reuses ids of the parent"
out=$(timeout 60 "$TMP/vr" "$HERE/nested_valid.scxml" large 50 2>&1 | grep -E "Issue|VALIDATION|config|EXCEPTION")
echo "$out"
if echo "$out" | grep -q "Issue (FATAL).*Duplicate state" && echo "$out" | grep -q "state=-1 config: <scxml> done"; then
  echo "DEFECT: fatal 'Duplicate state' on a valid chart that runs to its final state"
  rc=1
fi

echo "--- (b) contrast: dangling target without nested machine is reported"
timeout 60 "$TMP/vr" "$HERE/flat_dangling.scxml" none 2>&1 | grep -E "Issue|VALIDATION"

for engine in large fast; do
  echo "--- (c) parent transition targets a state of the child machine, engine=$engine (300 steps max)"
  out=$(timeout 120 "$TMP/vr" "$HERE/nested_dangling.scxml" $engine 300 2>&1 | grep -E "Issue|VALIDATION|config|EXCEPTION")
  echo "$out" | grep -E "Issue|VALIDATION|EXCEPTION"
  echo "$out" | grep config | tail -2
  # state 4 == USCXML_MICROSTEPPED, 1 == USCXML_IDLE
  if echo "$out" | grep -q "VALIDATION fatals=0" && echo "$out" | tail -1 | grep -q "step 299 state=4"; then
    echo "DEFECT: no fatal issue although target 'inner' does not exist in the parent machine; the interpreter drops the target and takes the transition forever (never idle)"
    rc=1
  fi
done
rm -rf "$TMP"
exit $rc
