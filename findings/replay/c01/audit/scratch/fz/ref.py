#!/usr/bin/env python3
# Minimal W3C SCXML Appendix D reference (null datamodel, no conds) + random chart generator + differential driver
import random, sys, subprocess, os, xml.etree.ElementTree as ET

class S:
    def __init__(s, kind, sid, parent):
        s.kind=kind; s.id=sid; s.parent=parent; s.children=[]; s.trans=[]; s.initial=None; s.deep=False; s.order=0
        if parent: parent.children.append(s)
class T:
    def __init__(t, src, event, targets, internal): t.src=src; t.event=event; t.targets=targets; t.internal=internal; t.idx=len(src.trans); src.trans.append(t)

def isDesc(a,b):
    p=a.parent
    while p:
        if p is b: return True
        p=p.parent
    return False
def properAnc(s, upto=None):
    r=[]; p=s.parent
    while p and p is not upto: r.append(p); p=p.parent
    return r
def childStates(s): return [c for c in s.children if c.kind in('state','parallel','final')]
def isAtomic(s): return s.kind=='final' or (s.kind=='state' and not childStates(s))
def isCompound(s): return s.kind in('state','scxml') and bool(childStates(s))

class Interp:
    def __init__(I, root, allstates):
        I.root=root; I.conf=set(); I.hist={}; I.iq=[]; I.trace=[]; I.running=True; I.states=allstates
    def log(I,x): I.trace.append(x)
    def effTargets(I,t):
        r=[]
        for s in t.targets:
            if s.kind=='history':
                if s in I.hist: r+= [x for x in I.hist[s] if x not in r]
                else: r+= [x for x in I.effTargets(s.trans[0]) if x not in r]
            elif s not in r: r.append(s)
        return r
    def lcca(I, lst):
        for anc in properAnc(lst[0]):
            if isCompound(anc) or anc.kind=='scxml':
                if all(isDesc(s,anc) for s in lst[1:]): return anc
    def domain(I,t):
        ts=I.effTargets(t)
        if not ts: return None
        if t.internal and isCompound(t.src) and all(isDesc(s,t.src) for s in ts): return t.src
        return I.lcca([t.src]+ts)
    def exitSet(I,trs):
        r=set()
        for t in trs:
            if t.targets:
                d=I.domain(t)
                for s in I.conf:
                    if isDesc(s,d): r.add(s)
        return r
    def select(I,ev):
        if MIMIC: return I.selectMimic(ev)
        en=[]
        for st in sorted([s for s in I.conf if isAtomic(s)], key=lambda s:s.order):
            done=False
            for s in [st]+properAnc(st):
                for t in s.trans:
                    if (ev is None and t.event is None) or (ev is not None and t.event is not None and match(t.event,ev)):
                        if t not in en: en.append(t)
                        done=True; break
                if done: break
        filt=[]
        for t1 in en:
            pre=False; rem=[]
            for t2 in filt:
                if I.exitSet([t1]) & I.exitSet([t2]):
                    if isDesc(t1.src,t2.src): rem.append(t2)
                    else: pre=True; break
            if not pre:
                for t3 in rem: filt.remove(t3)
                filt.append(t1)
        return filt
    def selectMimic(I,ev):
        po={}
        def walk(x):
            for c in x.children: walk(c)
            po[x]=len(po)
        walk(I.root)
        sel=[]
        for st in sorted([x for x in I.conf if x.trans and x.kind!='history'], key=lambda x:po[x]):
            for t in st.trans:
                if (t.event is None) != (ev is None): continue
                bad=False
                for u in sel:
                    if (I.exitSet([t]) & I.exitSet([u])) or isDesc(t.src,u.src) or isDesc(u.src,t.src): bad=True; break
                if bad: continue
                if ev is not None and not match(t.event,ev): continue
                sel.append(t); break
        # execution order: postfix order of transitions
        sel.sort(key=lambda t:(po[t.src],t.idx))
        return sel
    def micro(I,trs):
        I.log('MS')
        ex=sorted(I.exitSet(trs), key=lambda s:-s.order)
        for s in ex:
            for h in s.children:
                if h.kind=='history':
                    if h.deep: I.hist[h]=[x for x in sorted(I.conf,key=lambda s:s.order) if isAtomic(x) and isDesc(x,s)]
                    else: I.hist[h]=[x for x in sorted(I.conf,key=lambda s:s.order) if x.parent is s]
        for s in ex:
            I.log('X '+s.id); I.conf.discard(s)
        for t in trs: I.log('T %s#%d'%(t.src.id,t.idx))
        ent=set(); dflt=set(); 
        for t in trs:
            for s in t.targets: I.addDesc(s,ent,dflt)
            anc=I.domain(t)
            for s in I.effTargets(t): I.addAnc(s,anc,ent,dflt)
        for s in sorted(ent,key=lambda s:s.order):
            I.conf.add(s); I.log('E '+s.id)
            if s.kind=='final':
                if s.parent.kind=='scxml': I.running=False
                else:
                    p=s.parent; g=p.parent
                    I.iq.append('done.state.'+p.id)
                    if g.kind=='parallel' and all(I.inFinal(c) for c in childStates(g)): I.iq.append('done.state.'+g.id)
    def inFinal(I,s):
        if isCompound(s): return any(c.kind=='final' and c in I.conf for c in childStates(s))
        if s.kind=='parallel': return all(I.inFinal(c) for c in childStates(s))
        return False
    def addDesc(I,s,ent,dflt):
        if s.kind=='history':
            if s in I.hist:
                for x in I.hist[s]: I.addDesc(x,ent,dflt)
                for x in I.hist[s]: I.addAnc(x,s.parent,ent,dflt)
            else:
                for x in s.trans[0].targets: I.addDesc(x,ent,dflt)
                for x in s.trans[0].targets: I.addAnc(x,s.parent,ent,dflt)
        else:
            ent.add(s)
            if isCompound(s):
                dflt.add(s)
                for x in s.initial: I.addDesc(x,ent,dflt)
                for x in s.initial: I.addAnc(x,s,ent,dflt)
            elif s.kind=='parallel':
                for c in childStates(s):
                    if not any(isDesc(x,c) for x in ent): I.addDesc(c,ent,dflt)
    def addAnc(I,s,anc,ent,dflt):
        for a in properAnc(s,anc):
            ent.add(a)
            if a.kind=='parallel':
                for c in childStates(a):
                    if not any(isDesc(x,c) for x in ent): I.addDesc(c,ent,dflt)
    def run(I,events):
        I.log('MS'); 
        ent=set(); dflt=set()
        I.conf.add(I.root); I.log('E <scxml>')
        for x in I.root.initial: I.addDesc(x,ent,dflt)
        for x in I.root.initial: I.addAnc(x,I.root,ent,dflt)
        for s in sorted(ent,key=lambda s:s.order):
            I.conf.add(s); I.log('E '+s.id)
            if s.kind=='final':
                if s.parent.kind=='scxml': I.running=False
                else:
                    p=s.parent; g=p.parent
                    I.iq.append('done.state.'+p.id)
                    if g.kind=='parallel' and all(I.inFinal(c) for c in childStates(g)): I.iq.append('done.state.'+g.id)
        events=list(events); steps=0
        while I.running:
            # macrostep
            while I.running:
                steps+=1
                if steps>60: return None
                trs=I.select(None)
                if not trs:
                    if not I.iq: break
                    ev=I.iq.pop(0); I.log('EV '+ev); trs=I.select(ev)
                if trs: I.micro(trs)
            if not I.running: break
            I.log('CFG '+' '.join(s.id for s in sorted(I.conf,key=lambda s:s.order)))
            if not events: I.log('IDLE'); return I.trace
            ev=events.pop(0); I.log('EV '+ev)
            trs=I.select(ev)
            if trs: I.micro(trs)
        I.log('COMPLETION'); I.log('FINISHED')
        return I.trace

def match(desc, ev):
    for d in desc.split():
        if d=='*' or d==ev or ev.startswith(d+'.'): return True
    return False

# ---------- generator
def gen(rng):
    cnt=[0]; alls=[]
    root=S('scxml','<scxml>',None); alls.append(root)
    def mk(parent, depth, kind):
        cnt[0]+=1; s=S(kind,'s%d'%cnt[0],parent); alls.append(s)
        if kind in('state','parallel') and ((kind=='parallel') or (depth<3 and rng.random()<0.55 and cnt[0]<12)):
            n=rng.randint(2,3) if kind=='parallel' else rng.randint(1,3)
            for i in range(n):
                if kind=='parallel': k=rng.choice(['state','state','state','parallel']) if depth<2 else 'state'
                else: k=rng.choice(['state','state','state','parallel','final'])
                mk(s,depth+1,k)
            if kind=='state' and all(c.kind=='final' for c in s.children) and rng.random()<0.7: mk(s,depth+1,'state')
            if rng.random()<0.35:
                cnt[0]+=1; h=S('history','h%d'%cnt[0],s); h.deep=rng.random()<0.5; alls.append(h)
        return s
    for i in range(rng.randint(1,3)): mk(root,0,rng.choice(['state','state','parallel','final'] if i>0 else ['state','parallel']))
    # order: document order with histories first within parent (as written to xml)
    def reorder(s):
        s.children=[c for c in s.children if c.kind=='history']+[c for c in s.children if c.kind!='history']
        for c in s.children: reorder(c)
    reorder(root)
    o=[0]
    def num(s):
        s.order=o[0]; o[0]+=1
        for c in s.children: num(c)
    num(root)
    real=[s for s in alls if s.kind in('state','parallel','final')]
    for s in alls:
        if s.kind in('state','scxml') and childStates(s):
            cs=childStates(s)
            if rng.random()<0.6: s.initial=[cs[0]]; s.initattr=False
            else:
                desc=[x for x in real if isDesc(x,s)]
                s.initial=[rng.choice(desc)] if rng.random()<0.4 else [rng.choice(cs)]; s.initattr=True
        if s.kind=='history':
            p=s.parent
            cands=[x for x in real if (isDesc(x,p) if s.deep else x.parent is p)]
            T(s,None,[rng.choice(cands)],False)
    targets=[s for s in alls if s.kind!='scxml']
    for s in real:
        if s.kind=='final': continue
        for i in range(rng.choice([0,1,1,2,3])):
            ev=rng.choice(['e1','e2','e3','e1','e2',None,'*','done.state']) 
            r=rng.random()
            if r<0.2: tg=[]
            else: tg=[rng.choice(targets)]
            if ev is None and (not tg or True):
                # avoid trivially infinite loops: eventless only to later finals mostly
                if not tg or rng.random()<0.7: ev='e3'
            T(s,ev,tg,rng.random()<0.3)
    return root, alls

def toxml(root):
    def w(s,ind):
        pad='  '*ind; out=''
        if s.kind=='scxml':
            out+='<scxml xmlns="http://www.w3.org/2005/07/scxml" version="1.0" datamodel="null"'
            if getattr(s,'initattr',False): out+=' initial="%s"'%s.initial[0].id
            out+='>\n'
        elif s.kind=='history': out+='%s<history id="%s" type="%s">\n'%(pad,s.id,'deep' if s.deep else 'shallow')
        else:
            out+='%s<%s id="%s"'%(pad,s.kind,s.id)
            if s.kind=='state' and s.initial and s.initattr: out+=' initial="%s"'%s.initial[0].id
            out+='>\n'
        for t in s.trans:
            out+='%s  <transition'%pad
            if t.event: out+=' event="%s"'%t.event
            if t.targets: out+=' target="%s"'%' '.join(x.id for x in t.targets)
            if t.internal: out+=' type="internal"'
            out+='/>\n'
        for c in s.children: out+=w(c,ind+1)
        out+='%s</%s>\n'%(pad,s.kind)
        return out
    return w(root,0)

MIMIC=os.environ.get('MIMIC')=='1'
if __name__=='__main__':
    seed0=int(sys.argv[1]); n=int(sys.argv[2]); drv=sys.argv[3]
    env=dict(os.environ); env['USCXML_NOCACHE_FILES']='1'
    if len(sys.argv)>4: env['ENGINE']=sys.argv[4]
    bad=0
    for seed in range(seed0,seed0+n):
        rng=random.Random(seed)
        root,alls=gen(rng)
        evs=[rng.choice(['e1','e2','e3']) for i in range(rng.randint(2,6))]
        I=Interp(root,alls)
        try: tr=I.run(evs)
        except RecursionError: tr=None
        if tr is None: continue
        fn='c%d.scxml'%seed
        open(fn,'w').write(toxml(root))
        try:
            out=subprocess.run([drv,fn]+evs,env=env,capture_output=True,text=True,timeout=20).stdout
        except subprocess.TimeoutExpired: out='TIMEOUT'
        got=[l for l in out.split('\n') if l and not l.startswith('T h') and l.split()[0] in('MS','X','T','E','EV','CFG','IDLE','COMPLETION','FINISHED','LIVELOCK','EXC','TIMEOUT')]
        if got!=tr:
            bad+=1
            k=0
            while k<min(len(got),len(tr)) and got[k]==tr[k]: k+=1
            print('DIFF seed',seed,'events',evs,'at',k,'ref:',tr[k:k+4],'got:',got[k:k+4])
        else: os.remove(fn)
    print('done, diffs:',bad)
