#include "uscxml/Interpreter.h"
#include "uscxml/interpreter/InterpreterImpl.h"
#include "uscxml/interpreter/InterpreterMonitor.h"
#include "uscxml/interpreter/FastMicroStep.h"
#include "uscxml/interpreter/LargeMicroStep.h"
#include "uscxml/util/DOM.h"
#include "uscxml/util/Predicates.h"
#include <iostream>
using namespace uscxml;
using namespace XERCESC_NS;

static std::string idOf(const DOMElement* e) {
	if (HAS_ATTR(e, X("id"))) return ATTR(e, X("id"));
	return "<" + std::string(X(e->getLocalName())) + ">";
}
class Mon : public InterpreterMonitor {
public:
	Interpreter* interp;
	void beforeProcessingEvent(const std::string&, const Event& ev) { std::cout << "EV " << ev.name << std::endl; }
	void beforeMicroStep(const std::string&) { std::cout << "MS" << std::endl; }
	void beforeExitingState(const std::string&, const std::string& n, const DOMElement* s) { std::cout << "X " << idOf(s) << std::endl; }
	void beforeEnteringState(const std::string&, const std::string& n, const DOMElement* s) { std::cout << "E " << idOf(s) << std::endl; }
	void beforeTakingTransition(const std::string&, const DOMElement* t) {
		const DOMElement* p = (const DOMElement*)t->getParentNode();
		int idx = 0;
		for (auto c = p->getFirstElementChild(); c && c != t; c = c->getNextElementSibling())
			if (std::string(X(c->getLocalName())) == "transition") idx++;
		std::string pid = idOf(p);
		if (!HAS_ATTR(p, X("id"))) pid = idOf((const DOMElement*)p->getParentNode()) + "/" + pid;
		std::cout << "T " << pid << "#" << idx << std::endl;
	}
	void beforeExecutingContent(const std::string&, const DOMElement* c) {
		std::string ln = X(c->getLocalName());
		if (ln == "raise") std::cout << "C raise " << ATTR(c, X("event")) << std::endl;
		else if (ln == "log") std::cout << "C log " << ATTR(c, X("label")) << std::endl;
	}
	void onStableConfiguration(const std::string&) {
		std::cout << "CFG";
		for (auto s : interp->getConfiguration()) std::cout << " " << idOf(s);
		std::cout << std::endl;
	}
	void beforeCompletion(const std::string&) { std::cout << "COMPLETION" << std::endl; }
};

int main(int argc, char** argv) {
	try {
		Interpreter interp = Interpreter::fromURL(argv[1]);
		if (getenv("ENGINE") && std::string(getenv("ENGINE")) == "fast") {
			ActionLanguage al;
			al.microStepper = MicroStep(std::shared_ptr<MicroStepImpl>(new FastMicroStep(interp.getImpl().get())));
			interp.setActionLanguage(al);
		}
		Mon mon; mon.interp = &interp;
		interp.addMonitor(&mon);
		int next = 2;
		int guard = 0;
		while (guard++ < 100000) {
			InterpreterState st = interp.step(0);
			if (st == USCXML_FINISHED) { std::cout << "FINISHED" << std::endl; break; }
			if (st == USCXML_IDLE) {
				if (next < argc) { Event e(argv[next++]); e.eventType = Event::EXTERNAL; interp.receive(e); }
				else { 
					// allow delayed events a moment if requested
					if (getenv("WAITMS")) { st = interp.step(atoi(getenv("WAITMS"))); if (st != USCXML_IDLE) continue; }
					std::cout << "IDLE" << std::endl; break; }
			}
		}
		if (guard >= 100000) std::cout << "LIVELOCK" << std::endl;
	} catch (Event e) {
		std::cout << "EXC " << e.name << std::endl;
		return 2;
	}
	return 0;
}
