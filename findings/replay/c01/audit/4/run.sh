#!/bin/sh
# usage: run.sh <build dir>   -- exits non-zero when the defect shows (a chart ends in "fail" instead of "pass")
B=${1:?build dir}
D=$(cd "$(dirname "$0")" && pwd)
export USCXML_NOCACHE_FILES=1
rc=0
for doc in "$D"/*.scxml; do
	timeout 30 "$B/bin/test-state-pass" "$doc" > "/tmp/c01_demo_$$.log" 2>&1
	st=$?
	if [ $st -eq 0 ]; then
		echo "OK      $(basename "$doc"): ended in 'pass' (W3C behaviour)"
	else
		echo "DEFECT  $(basename "$doc"): did not end in 'pass' (exit $st)"
		grep -E "Exiting|Entering|Transition|Event" "/tmp/c01_demo_$$.log" | sed 's/^/        /'
		rc=1
	fi
	rm -f "/tmp/c01_demo_$$.log"
done
exit $rc
