// Reference side: interpret the document with libuscxml and print a trace of
//   - every dequeued event ("event NAME")
//   - every executed <log> ("log LABEL: EXPR") and <raise> ("raise NAME")
//   - the configuration whenever the machine is idle / finished ("config a b c")
// usage: interp_trace doc.scxml ev1 ev2 ...
#include "uscxml/config.h"
#include "uscxml/Interpreter.h"
#include "uscxml/interpreter/InterpreterMonitor.h"
#include "uscxml/util/DOM.h"
#include <xercesc/dom/DOM.hpp>
#include <iostream>
#include <set>

using namespace uscxml;
using namespace XERCESC_NS;

static std::string attr(const DOMElement* e, const char* name) {
	XMLCh* n = XMLString::transcode(name);
	std::string res;
	if (e->hasAttribute(n)) {
		char* v = XMLString::transcode(e->getAttribute(n));
		res = v;
		XMLString::release(&v);
	}
	XMLString::release(&n);
	return res;
}
static std::string local(const DOMElement* e) {
	char* v = XMLString::transcode(e->getLocalName() ? e->getLocalName() : e->getTagName());
	std::string res = v;
	XMLString::release(&v);
	return res;
}

class Tracer : public InterpreterMonitor {
public:
	void beforeProcessingEvent(const std::string&, const Event& event) {
		std::cout << "event " << event.name << std::endl;
	}
	void beforeExecutingContent(const std::string&, const DOMElement* e) {
		std::string tag = local(e);
		if (tag == "log")
			std::cout << "log " << attr(e, "label") << ": " << attr(e, "expr") << std::endl;
		else if (tag == "raise")
			std::cout << "raise " << attr(e, "event") << std::endl;
	}
};

static void printConfig(Interpreter& scxml) {
	std::set<std::string> names;
	std::list<DOMElement*> conf = scxml.getConfiguration();
	for (auto s : conf) {
		std::string id = attr(s, "id");
		if (id.size() > 0 && local(s) != "scxml")
			names.insert(id);
	}
	std::cout << "config";
	for (auto n : names) std::cout << " " << n;
	std::cout << std::endl;
}

int main(int argc, char** argv) {
	if (argc < 2) return 2;
	Interpreter scxml = Interpreter::fromURL(argv[1]);
	Tracer tracer;
	scxml.addMonitor(&tracer);

	int next = 2;
	InterpreterState state = USCXML_UNDEF;
	for (;;) {
		state = scxml.step(0);
		if (state == USCXML_FINISHED) {
			std::cout << "finished" << std::endl;
			break;
		}
		if (state == USCXML_IDLE) {
			printConfig(scxml);
			if (next >= argc) break;
			Event ev;
			ev.name = argv[next++];
			ev.eventType = Event::EXTERNAL;
			scxml.receive(ev);
		}
	}
	return 0;
}
