// LD_PRELOAD: serve large allocations from a region that grows downwards, i.e. a different (legal) address-space layout
#define _GNU_SOURCE
#include <dlfcn.h>
#include <stddef.h>
#include <stdint.h>
#include <string.h>
#include <sys/mman.h>
static char *top = 0, *base = 0; static size_t REG = 1ul << 30;
static void* (*rmalloc)(size_t); static void (*rfree)(void*); static void* (*rrealloc)(void*, size_t);
static size_t thr = 2048;
static void init(void) { if (base) return; base = mmap(0, REG, PROT_READ|PROT_WRITE, MAP_PRIVATE|MAP_ANONYMOUS|MAP_NORESERVE, -1, 0); top = base + REG; rmalloc = dlsym(RTLD_NEXT, "malloc"); rfree = dlsym(RTLD_NEXT, "free"); rrealloc = dlsym(RTLD_NEXT, "realloc"); }
static int mine(void* p) { return base && (char*)p >= base && (char*)p < base + REG; }
void* malloc(size_t n) { init(); if (n >= thr) { size_t m = (n + 16 + 15) & ~15ul; top -= m; *(size_t*)top = n; return top + 16; } return rmalloc(n); }
void free(void* p) { if (!p || mine(p)) return; rfree(p); }
void* realloc(void* p, size_t n) { init(); if (p && mine(p)) { size_t o = *(size_t*)((char*)p - 16); void* q = malloc(n); memcpy(q, p, o < n ? o : n); return q; } if (n >= thr) { void* q = malloc(n); if (p) { extern size_t malloc_usable_size(void*); size_t o = malloc_usable_size(p); memcpy(q, p, o < n ? o : n); rfree(p); } return q; } return rrealloc(p, n); }
