#!/bin/sh
# usage: run.sh <build dir>   -- exits non-zero when the defect shows
B=${1:?build dir}
D=$(cd "$(dirname "$0")" && pwd)
S=$(cd "$B/.." && pwd)
T=$(mktemp -d)
g++ -std=gnu++11 -O1 -w -I"$S/src" -I"$B" -I"$S/contrib/src" -DXERCESC_NS=xercesc_3_2 "$D/restore_duplicates.cpp" -o "$T/rd" \
    -L"$B/lib" -luscxml -lxerces-c -lpthread -Wl,-rpath,"$B/lib" || exit 2
timeout 30 "$T/rd" > "$T/out" 2>&1; rc=$?
grep "received\|processed\|DEFECT" "$T/out"
rm -rf "$T"
exit $rc
