// C08: "events handed to an interpreter are each processed exactly once".
// a and b are received once and are still pending when a snapshot is taken; the snapshot is restored
// into the same interpreter (roll back to the snapshot). The interpreter then processes a b a b.
#include "uscxml/uscxml.h"
#include "uscxml/interpreter/InterpreterMonitor.h"
#include <iostream>
#include <vector>
using namespace uscxml;

struct Mon : public InterpreterMonitor {
	std::vector<std::string> seen;
	void beforeProcessingEvent(const std::string&, const Event& e) { seen.push_back(e.name); }
};

int main() {
	const char* xml =
	    "<scxml xmlns='http://www.w3.org/2005/07/scxml' version='1.0' datamodel='null'>"
	    " <state id='s'><transition event='a'/><transition event='b'/></state>"
	    "</scxml>";
	Interpreter interp = Interpreter::fromXML(xml, "");
	Mon mon;
	interp.addMonitor(&mon);

	while (interp.step(0) != USCXML_MACROSTEPPED);        // initial configuration is stable
	interp.receive(Event("a", Event::EXTERNAL));           // handed over once each
	interp.receive(Event("b", Event::EXTERNAL));
	std::string snapshot = interp.serialize();             // external queue of the snapshot: [a, b]
	interp.deserialize(snapshot);                          // restore: the state should be that of the snapshot
	while (interp.step(0) != USCXML_IDLE);

	std::string got;
	for (auto& n : mon.seen) got += n + " ";
	std::cout << "received : a b " << std::endl << "processed: " << got << std::endl;
	if (got != "a b ") { std::cout << "DEFECT: pending external events were duplicated by deserialize()" << std::endl; return 1; }
	return 0;
}
