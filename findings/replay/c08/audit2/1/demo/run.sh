#!/bin/sh
# usage: run.sh <build dir>   -- exits non-zero when the defect shows
B=${1:?build dir}
D=$(cd "$(dirname "$0")" && pwd)
S=$(cd "$B/.." && pwd)
T=$(mktemp -d)
rc=0

echo "== 1. stock uscxml-browser on equal_delay.scxml (4 sends, delay 50ms, one onentry block)"
timeout 20 "$B/bin/uscxml-browser" -v "$D/equal_delay.scxml" > "$T/browser.out" 2>&1
grep "External Event: e\|Outcome" "$T/browser.out"
if grep -q 'Outcome: "fail"' "$T/browser.out"; then echo "DEFECT: chart ended in fail"; rc=1; fi

echo "== 2. API program, 6 sends"
g++ -std=gnu++11 -O1 -w -I"$S/src" -I"$B" -I"$S/contrib/src" -DXERCESC_NS=xercesc_3_2 "$D/equal_delay_order.cpp" -o "$T/edo" \
    -L"$B/lib" -luscxml -lxerces-c -lpthread -Wl,-rpath,"$B/lib" || exit 2
"$T/edo" 6 2>&1 | grep "sent\|processed\|DEFECT" || true
"$T/edo" 6 >/dev/null 2>&1 || rc=1
rm -rf "$T"
exit $rc
