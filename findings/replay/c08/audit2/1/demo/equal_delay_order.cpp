// C08: "events from the same sender are processed in the order they were sent".
// One <onentry> block sends e1..eK to the own session, all with delay="50ms".
// Prints the order in which the interpreter processes them.
#include "uscxml/uscxml.h"
#include "uscxml/interpreter/InterpreterMonitor.h"
#include <thread>
#include <iostream>
#include <sstream>
#include <vector>
#include <unistd.h>
using namespace uscxml;

struct Mon : public InterpreterMonitor {
	std::vector<std::string> seen;
	void beforeProcessingEvent(const std::string&, const Event& e) {
		if (e.name[0] == 'e') seen.push_back(e.name);
	}
};

int main(int argc, char** argv) {
	const int K = argc > 1 ? atoi(argv[1]) : 6;
	std::stringstream xml;
	xml << "<scxml xmlns='http://www.w3.org/2005/07/scxml' version='1.0' datamodel='null' initial='s'>";
	xml << "<state id='s'><onentry>";
	for (int i = 1; i <= K; i++) xml << "<send event='e" << i << "' delay='50ms'/>";
	xml << "</onentry><transition event='quit' target='f'/></state><final id='f'/></scxml>";

	Interpreter interp = Interpreter::fromXML(xml.str(), "");
	Mon mon;
	interp.addMonitor(&mon);

	std::thread producer([&] { usleep(400000); interp.receive(Event("quit", Event::EXTERNAL)); });
	while (interp.step() != USCXML_FINISHED);
	producer.join();

	std::string got, want;
	for (auto& n : mon.seen) got += n + " ";
	for (int i = 1; i <= K; i++) want += "e" + std::to_string(i) + " ";
	std::cout << "sent     : " << want << std::endl << "processed: " << got << std::endl;
	if (got != want) { std::cout << "DEFECT: same sender, same delay, processed out of order" << std::endl; return 1; }
	return 0;
}
