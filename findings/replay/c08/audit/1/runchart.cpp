// Runs an SCXML document to completion with the chosen microstepper ("large" or "fast"),
// prints the sequence of processed events and the id of the final state reached.
#include "uscxml/uscxml.h"
#include "uscxml/interpreter/InterpreterImpl.h"
#include "uscxml/interpreter/InterpreterMonitor.h"
#include "uscxml/plugins/Factory.h"
#include "uscxml/util/DOM.h"
#include <iostream>
#include <fstream>
#include <sstream>

using namespace uscxml;

struct Rec : public InterpreterMonitor {
	std::vector<std::string> events;
	std::string lastEntered;
	virtual void beforeProcessingEvent(const std::string& sessionId, const Event& event) {
		events.push_back(event.name);
	}
	virtual void beforeEnteringState(const std::string& sessionId, const std::string& stateName, const XERCESC_NS::DOMElement* state) {
		lastEntered = stateName;
	}
};

int main(int argc, char** argv) {
	if (argc < 3) { std::cerr << "usage: runchart <large|fast> <file.scxml>" << std::endl; return 2; }
	std::string engine = argv[1];
	std::ifstream in(argv[2]);
	std::stringstream ss; ss << in.rdbuf();
	Interpreter interp = Interpreter::fromXML(ss.str(), std::string("file://") + argv[2]);
	ActionLanguage al;
	al.microStepper = MicroStep(Factory::getInstance()->createMicroStepper(engine, interp.getImpl().get()));
	interp.setActionLanguage(al);
	Rec rec;
	interp.addMonitor(&rec);
	InterpreterState s;
	int guard = 0;
	while ((s = interp.step(200)) != USCXML_FINISHED && ++guard < 10000) {}
	std::cout << engine << ": events:";
	for (auto& e : rec.events) std::cout << " " << e;
	std::cout << " | final: " << rec.lastEntered << std::endl;
	return rec.lastEntered == "pass" ? 0 : 1;
}
