// receive() on an interpreter that was not stepped yet is supported (InterpreterImpl::receive creates the
// external queue on demand). Selecting the microstepper afterwards replaces that queue: the event is lost.
#include "uscxml/uscxml.h"
#include "uscxml/interpreter/InterpreterImpl.h"
#include "uscxml/interpreter/InterpreterMonitor.h"
#include "uscxml/plugins/Factory.h"
#include <iostream>

using namespace uscxml;

static const char* doc =
"<scxml xmlns=\"http://www.w3.org/2005/07/scxml\" version=\"1.0\" initial=\"s0\">"
" <state id=\"s0\">"
"  <transition event=\"first\" target=\"pass\"/>"
"  <transition event=\"second\" target=\"fail\"/>"
" </state>"
" <final id=\"pass\"/><final id=\"fail\"/>"
"</scxml>";

struct Rec : public InterpreterMonitor {
	std::vector<std::string> events;
	virtual void beforeProcessingEvent(const std::string& sessionId, const Event& event) {
		events.push_back(event.name);
	}
};

int run(bool setAL) {
	Interpreter interp = Interpreter::fromXML(doc, "");
	Rec rec;
	interp.addMonitor(&rec);
	interp.receive(Event("first", Event::EXTERNAL));
	if (setAL) {
		ActionLanguage al;
		al.microStepper = MicroStep(Factory::getInstance()->createMicroStepper("fast", interp.getImpl().get()));
		interp.setActionLanguage(al);
	}
	interp.step(0);
	interp.receive(Event("second", Event::EXTERNAL));
	while (interp.step(0) != USCXML_FINISHED) {}
	std::cout << (setAL ? "with   " : "without") << " setActionLanguage: processed:";
	for (auto& e : rec.events) std::cout << " " << e;
	std::cout << std::endl;
	return rec.events.size() > 0 && rec.events[0] == "first" ? 0 : 1;
}

int main() {
	int a = run(false);
	int b = run(true);
	return a + b;
}
