#!/bin/bash
# usage: run.sh <build dir>   (exits non-zero when the defect shows)
# Part 1 (any build): receive(); setActionLanguage(); step() loses the event.
# Part 2 (TSAN=1 and a -fsanitize=thread build of the library): producers calling receive() while the first
#         step() runs race on the _externalQueue handle (unsynchronised check in InterpreterImpl::receive).
B=${1:-/tmp/wta/C08/_build}; B=$(cd "$B" && pwd)
D=$(cd "$(dirname "$0")" && pwd)
WT=$(cd "$D/../../.." && pwd)
export USCXML_NOCACHE_FILES=1
CXX=g++; SAN=""
if [ -n "$TSAN" ]; then CXX=clang++; SAN="-fsanitize=thread -g"; fi
FLAGS="$SAN -std=gnu++11 -w -I$WT/src -I$B -I$WT/contrib/src -DXERCESC_NS=xercesc_3_2"
LIBS="-L$B/lib -luscxml -lxerces-c -lpthread -Wl,-rpath,$B/lib"
$CXX $FLAGS $D/early_receive.cpp -o $D/early_receive $LIBS || exit 2
$CXX $FLAGS $D/producers.cpp -o $D/producers $LIBS || exit 2
bad=0
$D/early_receive 2>/dev/null || { echo "DEFECT: an event received before setActionLanguage() was never processed"; bad=1; }
if [ -n "$TSAN" ]; then
	TSAN_OPTIONS="halt_on_error=0" timeout 300 $D/producers large 4 300 2 1 > $D/tsan.log 2>&1
	if grep -A30 "WARNING: ThreadSanitizer" $D/tsan.log | grep -q "InterpreterImpl::receive"; then
		echo "DEFECT: data race on the external queue handle between receive() and the first step(), see tsan.log"; bad=1
	fi
else
	# functional check of the multi-producer contract (passes: no loss, duplication or reordering observed)
	for engine in large fast; do for block in 0 5; do for early in 0 1; do
		timeout 120 $D/producers $engine 8 2000 $block $early 2>/dev/null | tail -1
	done; done; done
fi
exit $bad
