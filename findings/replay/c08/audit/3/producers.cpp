// N producer threads call Interpreter::receive() while the main thread steps.
// Checks: each event processed exactly once, per-producer order preserved.
// argv: <engine> <nproducers> <nevents> <blockMs> <startBeforeFirstStep 0|1>
#include "uscxml/uscxml.h"
#include "uscxml/interpreter/InterpreterImpl.h"
#include "uscxml/interpreter/InterpreterMonitor.h"
#include "uscxml/plugins/Factory.h"
#include <iostream>
#include <thread>
#include <atomic>
#include <map>

using namespace uscxml;

static const char* doc =
"<scxml xmlns=\"http://www.w3.org/2005/07/scxml\" version=\"1.0\" initial=\"s0\">"
" <state id=\"s0\">"
"  <transition event=\"p\"><raise event=\"int\"/></transition>"
"  <transition event=\"quit\" target=\"done\"/>"
" </state>"
" <final id=\"done\"/>"
"</scxml>";

struct Rec : public InterpreterMonitor {
	std::vector<std::string> events;
	virtual void beforeProcessingEvent(const std::string& sessionId, const Event& event) {
		events.push_back(event.name);
	}
};

int main(int argc, char** argv) {
	std::string engine = argc > 1 ? argv[1] : "large";
	int P = argc > 2 ? atoi(argv[2]) : 4;
	int N = argc > 3 ? atoi(argv[3]) : 1000;
	size_t blockMs = argc > 4 ? atol(argv[4]) : 0;
	int early = argc > 5 ? atoi(argv[5]) : 0;

	Interpreter interp = Interpreter::fromXML(doc, "");
	ActionLanguage al;
	al.microStepper = MicroStep(Factory::getInstance()->createMicroStepper(engine, interp.getImpl().get()));
	interp.setActionLanguage(al);
	Rec rec;
	interp.addMonitor(&rec);

	if (!early) { interp.step(0); }

	std::atomic<int> go(0), finished(0);
	std::vector<std::thread> producers;
	for (int p = 0; p < P; p++) {
		producers.push_back(std::thread([&, p]() {
			while (!go) {}
			for (int i = 0; i < N; i++) {
				Event e("p." + std::to_string(p) + "." + std::to_string(i), Event::EXTERNAL);
				interp.receive(e);
			}
			finished++;
		}));
	}
	go = 1;
	bool quitSent = false;
	InterpreterState s;
	while ((s = interp.step(blockMs)) != USCXML_FINISHED) {
		if (!quitSent && finished == P) {
			interp.receive(Event("quit", Event::EXTERNAL));
			quitSent = true;
		}
	}
	for (auto& t : producers) t.join();

	std::map<int, int> next;
	int errors = 0, seen = 0;
	bool expectInt = false;
	for (auto& n : rec.events) {
		if (expectInt) {
			if (n != "int") { std::cout << "external event " << n << " taken while internal queue not empty" << std::endl; errors++; }
			expectInt = false;
			if (n == "int") continue;
		}
		if (n.substr(0, 2) == "p.") {
			int p = atoi(n.c_str() + 2);
			int i = atoi(n.c_str() + n.find('.', 2) + 1);
			if (next[p] != i) { std::cout << "producer " << p << ": expected #" << next[p] << " got #" << i << std::endl; errors++; }
			next[p] = i + 1;
			seen++;
			expectInt = true;
		}
	}
	if (seen != P * N) { std::cout << "processed " << seen << " of " << P * N << std::endl; errors++; }
	std::cout << engine << " P=" << P << " N=" << N << " block=" << blockMs << " early=" << early << ": " << (errors ? "FAIL" : "ok") << std::endl;
	return errors ? 1 : 0;
}
