#!/bin/bash
# usage: run.sh <build dir>   (exits non-zero when the defect shows)
B=${1:-/tmp/wta/C08/_build}; B=$(cd "$B" && pwd)
D=$(cd "$(dirname "$0")" && pwd)
WT=$(cd "$D/../../.." && pwd)
export USCXML_NOCACHE_FILES=1
g++ -std=gnu++11 -w -I$WT/src -I$B -I$WT/contrib/src -DXERCESC_NS=xercesc_3_2 $D/runchart.cpp -o $D/runchart \
    -L$B/lib -luscxml -lxerces-c -lpthread -Wl,-rpath,$B/lib || exit 2
bad=0
for engine in large fast; do
	out=$(timeout 60 $D/runchart $engine $D/nameless.scxml 2>/dev/null | tail -1)
	echo "$out"
	case "$out" in *"final: pass") ;; *) bad=1;; esac
done
if [ $bad = 1 ]; then echo "DEFECT: the event without a name was taken from the external queue and discarded"; exit 1; fi
echo ok; exit 0
