#!/bin/bash
# usage: run.sh <build dir>   (exits non-zero when the defect shows)
# The race is timing dependent: the chart is run up to 15 times, typically it crashes within the first three.
# With a ThreadSanitizer build of the library (TSAN=1 run.sh _build_tsan) one run suffices, see tsan_excerpt.txt.
B=${1:-/tmp/wta/C08/_build}; B=$(cd "$B" && pwd)
D=$(cd "$(dirname "$0")" && pwd)
WT=$(cd "$D/../../.." && pwd)
export USCXML_NOCACHE_FILES=1
CXX=g++; SAN=""
if [ -n "$TSAN" ]; then CXX=clang++; SAN="-fsanitize=thread -g"; fi
$CXX $SAN -std=gnu++11 -w -I$WT/src -I$B -I$WT/contrib/src -DXERCESC_NS=xercesc_3_2 $D/runchart.cpp -o $D/runchart \
    -L$B/lib -luscxml -lxerces-c -lpthread -Wl,-rpath,$B/lib || exit 2
if [ -n "$TSAN" ]; then
	TSAN_OPTIONS="halt_on_error=0" timeout 150 $D/runchart large $D/delayed_send_vs_uninvoke.scxml > $D/tsan.log 2>&1
	if grep -A40 "WARNING: ThreadSanitizer" $D/tsan.log | grep -q "enqueueAtInvoker"; then
		echo "DEFECT: data race between InterpreterImpl::enqueueAtInvoker (timer thread) and invoke/uninvoke (stepping thread), see tsan.log"; exit 1
	fi
	echo "no race reported"; exit 0
fi
for i in $(seq 1 15); do
	for engine in large fast; do
		timeout 60 $D/runchart $engine $D/delayed_send_vs_uninvoke.scxml > $D/out.log 2>&1
		rc=$?
		echo "run $i ($engine): exit code $rc: $(tail -1 $D/out.log | cut -c1-60)"
		if [ $rc -ge 128 ] && [ $rc -ne 137 ]; then
			echo "DEFECT: the interpreter crashed (signal $((rc-128))) delivering a delayed event to an invoker that is being cancelled"; exit 1
		fi
	done
done
echo "ok (no crash in 30 runs)"; exit 0
