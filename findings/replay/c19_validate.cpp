#include "uscxml/uscxml.h"
#include "uscxml/debug/InterpreterIssue.h"
#include <iostream>
using namespace uscxml;
int main(int argc, char** argv) {
	Interpreter i = Interpreter::fromURL(argv[1]);
	std::list<InterpreterIssue> issues = i.validate();
	int n = 0;
	for (auto& is : issues) { std::cout << is << std::endl; n++; }
	std::cout << n << " issue(s)" << std::endl;
	return n ? 1 : 0;
}
