// The micro steppers notify the monitor set they copied at the beginning of step(), the content executor
// notifies the *live* set (BasicContentExecutor::process calls _callbacks->getMonitors() for every element).
// A monitor attached while a step is running (from another monitor's callback - e.g. a tracer that is
// switched on when a certain state is about to be entered) therefore receives before/afterExecutingContent
// without any enclosing micro-step / entry bracket; a monitor that detaches itself keeps receiving the
// state / transition / micro-step notifications of that step but loses the content in between.
#include "uscxml/uscxml.h"
#include "uscxml/Interpreter.h"
#include "uscxml/interpreter/InterpreterImpl.h"
#include "uscxml/interpreter/FastMicroStep.h"
#include "uscxml/interpreter/LargeMicroStep.h"
#include "uscxml/interpreter/InterpreterMonitor.h"
#include <xercesc/dom/DOM.hpp>
#include <iostream>
#include <vector>
using namespace uscxml;

struct Tracer : public InterpreterMonitor {
	const char* tag;
	int depth = 0;      // open micro-step / state / transition brackets
	int outside = 0;    // content notifications outside any bracket
	int total = 0;
	Tracer(const char* t) : tag(t) {}
	void say(const std::string& s) { total++; std::cout << tag << ": " << std::string(depth * 2, ' ') << s << std::endl; }
	void beforeMicroStep(const std::string&) { say("beforeMicroStep"); depth++; }
	void afterMicroStep(const std::string&) { depth--; say("afterMicroStep"); }
	void beforeEnteringState(const std::string&, const std::string& n, const XERCESC_NS::DOMElement*) { say("beforeEnteringState " + n); depth++; }
	void afterEnteringState(const std::string&, const std::string& n, const XERCESC_NS::DOMElement*) { depth--; say("afterEnteringState " + n); }
	void beforeExecutingContent(const std::string&, const XERCESC_NS::DOMElement* e) {
		if (depth <= 0) outside++;
		say("beforeExecutingContent " + X(e->getTagName()).str() + (depth <= 0 ? "      <-- outside any bracket" : ""));
	}
	void afterExecutingContent(const std::string&, const XERCESC_NS::DOMElement* e) { say("afterExecutingContent " + X(e->getTagName()).str()); }
	void onStableConfiguration(const std::string&) { say("onStableConfiguration"); }
};

struct Switch : public InterpreterMonitor {
	Interpreter* interpreter;
	Tracer* tracer;
	void beforeEnteringState(const std::string&, const std::string& n, const XERCESC_NS::DOMElement*) {
		if (n == "a") {
			std::cout << "switch: state a is about to be entered, attaching the tracer" << std::endl;
			interpreter->addMonitor(tracer);
		}
	}
};

static const char* xml =
    "<scxml xmlns=\"http://www.w3.org/2005/07/scxml\" version=\"1.0\">"
    "  <state id=\"a\">"
    "    <onentry><log label=\"a\" expr=\"entered\"/><raise event=\"x\"/></onentry>"
    "    <transition event=\"x\" target=\"b\"/>"
    "  </state>"
    "  <state id=\"b\"><onentry><log label=\"b\" expr=\"entered\"/></onentry></state>"
    "</scxml>";

int main(int argc, char** argv) {
	bool fast = argc > 1 && std::string(argv[1]) == "fast";
	Interpreter interpreter = Interpreter::fromXML(xml, "");
	ActionLanguage al;
	if (fast) al.microStepper = MicroStep(std::shared_ptr<MicroStepImpl>(new FastMicroStep(interpreter.getImpl().get())));
	else al.microStepper = MicroStep(std::shared_ptr<MicroStepImpl>(new LargeMicroStep(interpreter.getImpl().get())));
	interpreter.setActionLanguage(al);

	Tracer tracer("tracer");
	Switch sw;
	sw.interpreter = &interpreter;
	sw.tracer = &tracer;
	interpreter.addMonitor(&sw);

	int n = 0;
	while (interpreter.step(0) != USCXML_IDLE && n++ < 100) {}

	std::cout << "tracer: " << tracer.outside << " content notification(s) outside any bracket, final bracket depth " << tracer.depth << std::endl;
	return (tracer.outside == 0 && tracer.depth == 0) ? 0 : 1;
}
