// LambdaMonitor::enterState(cb, after=true) also installs cb as the *before* callback
// (and overwrites a before-callback registered earlier): each entered state is reported twice
// through the "after entering" lambda, the first time before the state is entered at all.
#include "uscxml/uscxml.h"
#include "uscxml/Interpreter.h"
#include "uscxml/interpreter/InterpreterImpl.h"
#include "uscxml/interpreter/FastMicroStep.h"
#include "uscxml/interpreter/LargeMicroStep.h"
#include "uscxml/interpreter/InterpreterMonitor.h"
#include <iostream>
#include <vector>
using namespace uscxml;

static const char* xml =
    "<scxml xmlns=\"http://www.w3.org/2005/07/scxml\" version=\"1.0\">"
    "  <state id=\"a\">"
    "    <onentry><log label=\"a\" expr=\"entered\"/></onentry>"
    "    <transition target=\"done\"/>"
    "  </state>"
    "  <final id=\"done\"/>"
    "</scxml>";

int main(int argc, char** argv) {
	bool fast = argc > 1 && std::string(argv[1]) == "fast";
	Interpreter interpreter = Interpreter::fromXML(xml, "");
	ActionLanguage al;
	if (fast) al.microStepper = MicroStep(std::shared_ptr<MicroStepImpl>(new FastMicroStep(interpreter.getImpl().get())));
	else al.microStepper = MicroStep(std::shared_ptr<MicroStepImpl>(new LargeMicroStep(interpreter.getImpl().get())));
	interpreter.setActionLanguage(al);

	std::vector<std::string> seq;
	int beforeCalls = 0, afterCalls = 0;

	// a "before" lambda first, then an "after" lambda: both are legal uses of the public API
	interpreter.on().enterState([&](const std::string&, const std::string& name, const XERCESC_NS::DOMElement*) {
		beforeCalls++;
		seq.push_back("before-lambda(" + name + ")");
	});
	interpreter.on().enterState([&](const std::string&, const std::string& name, const XERCESC_NS::DOMElement*) {
		afterCalls++;
		seq.push_back("after-lambda(" + name + ")");
	}, true);
	interpreter.on().executeContent([&](const std::string&, const XERCESC_NS::DOMElement*) {
		seq.push_back("  content");
	});

	InterpreterState s = USCXML_UNDEF;
	int n = 0;
	while (s != USCXML_FINISHED && n++ < 100) s = interpreter.step(0);

	for (auto& l : seq) std::cout << l << std::endl;
	// three states are entered: <scxml>, a, done
	std::cout << "states entered: 3, before-lambda calls: " << beforeCalls << " (expected 3), after-lambda calls: " << afterCalls << " (expected 3)" << std::endl;
	return (beforeCalls == 3 && afterCalls == 3) ? 0 : 1;
}
