// A session restored with deserialize() announces a stable configuration although it has not
// completed (or even started) a macrostep: the macrostep that led to the saved configuration was
// already announced to the monitor of the saving session, and it is announced a second time.
#include "uscxml/uscxml.h"
#include "uscxml/Interpreter.h"
#include "uscxml/interpreter/InterpreterImpl.h"
#include "uscxml/interpreter/FastMicroStep.h"
#include "uscxml/interpreter/LargeMicroStep.h"
#include "uscxml/interpreter/InterpreterMonitor.h"
#include <iostream>
using namespace uscxml;

struct Mon : public InterpreterMonitor {
	const char* tag; int stable = 0; int micro = 0;
	Mon(const char* t) : tag(t) {}
	void beforeMicroStep(const std::string&) { micro++; std::cout << tag << ": beforeMicroStep" << std::endl; }
	void afterMicroStep(const std::string&) { std::cout << tag << ": afterMicroStep" << std::endl; }
	void beforeProcessingEvent(const std::string&, const Event& e) { std::cout << tag << ": event " << e.name << std::endl; }
	void onStableConfiguration(const std::string&) { stable++; std::cout << tag << ": onStableConfiguration" << std::endl; }
};

static const char* xml =
"<scxml xmlns=\"http://www.w3.org/2005/07/scxml\" version=\"1.0\" datamodel=\"lua\">"
"  <state id=\"a\"><transition event=\"go\" target=\"b\"/></state>"
"  <state id=\"b\"/>"
"</scxml>";

int main(int argc, char** argv) {
	bool fast = argc > 1 && std::string(argv[1]) == "fast";
	int rc = 0;
	std::string saved;
	{
		Interpreter i1 = Interpreter::fromXML(xml, "");
		ActionLanguage al;
		if (fast) al.microStepper = MicroStep(std::shared_ptr<MicroStepImpl>(new FastMicroStep(i1.getImpl().get())));
		else al.microStepper = MicroStep(std::shared_ptr<MicroStepImpl>(new LargeMicroStep(i1.getImpl().get())));
		i1.setActionLanguage(al);
		Mon m1("first ");
		i1.addMonitor(&m1);
		InterpreterState s;
		while ((s = i1.step(0)) != USCXML_IDLE) {}
		saved = i1.serialize();
		std::cout << "first : macrosteps completed=1, stable notices=" << m1.stable << std::endl;
		// variant: roll the very same session back to the snapshot it just took
		i1.deserialize(saved);
		int n = 0;
		while ((s = i1.step(0)) != USCXML_IDLE && n++ < 20) {}
		std::cout << "first : after restoring its own snapshot: macrosteps completed=1, stable notices=" << m1.stable << std::endl;
		if (m1.stable != 1) rc = 1;
	}
	{
		Interpreter i2 = Interpreter::fromXML(xml, "");
		ActionLanguage al;
		if (fast) al.microStepper = MicroStep(std::shared_ptr<MicroStepImpl>(new FastMicroStep(i2.getImpl().get())));
		else al.microStepper = MicroStep(std::shared_ptr<MicroStepImpl>(new LargeMicroStep(i2.getImpl().get())));
		i2.setActionLanguage(al);
		Mon m2("second");
		i2.addMonitor(&m2);
		i2.deserialize(saved);
		InterpreterState s;
		int n = 0;
		while ((s = i2.step(0)) != USCXML_IDLE && n++ < 20) {}
		std::cout << "second: no event was processed, microsteps=" << m2.micro << " stable notices=" << m2.stable << std::endl;
		if (m2.stable != 0) rc = 1;
	}
	return rc;
}
