// An <invoke> whose evaluation fails (here: a <param> with an illegal expression) is never started and
// no before/afterInvoking is delivered -- but when its state is left, before/afterUninvoking IS delivered
// for it. The monitor is told about the end of an invocation that, by its own account, never began.
#include "uscxml/uscxml.h"
#include "uscxml/Interpreter.h"
#include "uscxml/interpreter/InterpreterImpl.h"
#include "uscxml/interpreter/FastMicroStep.h"
#include "uscxml/interpreter/LargeMicroStep.h"
#include "uscxml/interpreter/InterpreterMonitor.h"
#include <iostream>
#include <map>
using namespace uscxml;

struct Mon : public InterpreterMonitor {
	std::map<std::string, int> invoked, uninvoked;
	void beforeInvoking(const std::string&, const XERCESC_NS::DOMElement*, const std::string& id) { std::cout << "beforeInvoking   " << id << std::endl; invoked[id]++; }
	void afterInvoking(const std::string&, const XERCESC_NS::DOMElement*, const std::string& id) { std::cout << "afterInvoking    " << id << std::endl; }
	void beforeUninvoking(const std::string&, const XERCESC_NS::DOMElement*, const std::string& id) { std::cout << "beforeUninvoking " << id << std::endl; uninvoked[id]++; }
	void afterUninvoking(const std::string&, const XERCESC_NS::DOMElement*, const std::string& id) { std::cout << "afterUninvoking  " << id << std::endl; }
	void onStableConfiguration(const std::string&) { std::cout << "onStableConfiguration" << std::endl; }
};

static const char* xml =
    "<scxml xmlns=\"http://www.w3.org/2005/07/scxml\" version=\"1.0\" datamodel=\"lua\">"
    "  <state id=\"s\">"
    "    <invoke type=\"scxml\" id=\"good\">"
    "      <content><scxml xmlns=\"http://www.w3.org/2005/07/scxml\" version=\"1.0\"><state id=\"c\"/></scxml></content>"
    "    </invoke>"
    "    <invoke type=\"scxml\" id=\"broken\">"
    "      <param name=\"p\" expr=\"1 +* 1\"/>"
    "      <content><scxml xmlns=\"http://www.w3.org/2005/07/scxml\" version=\"1.0\"><state id=\"c\"/></scxml></content>"
    "    </invoke>"
    "    <transition event=\"leave\" target=\"t\"/>"
    "  </state>"
    "  <state id=\"t\"/>"
    "</scxml>";

int main(int argc, char** argv) {
	bool fast = argc > 1 && std::string(argv[1]) == "fast";
	Interpreter interpreter = Interpreter::fromXML(xml, "");
	ActionLanguage al;
	if (fast) al.microStepper = MicroStep(std::shared_ptr<MicroStepImpl>(new FastMicroStep(interpreter.getImpl().get())));
	else al.microStepper = MicroStep(std::shared_ptr<MicroStepImpl>(new LargeMicroStep(interpreter.getImpl().get())));
	interpreter.setActionLanguage(al);
	Mon mon;
	interpreter.addMonitor(&mon);

	int n = 0;
	while (interpreter.step(0) != USCXML_IDLE && n++ < 100) {}
	interpreter.receive(Event("leave"));
	n = 0;
	while (interpreter.step(20) != USCXML_IDLE && n++ < 100) {}
	interpreter.cancel();
	n = 0;
	while (interpreter.step(20) != USCXML_FINISHED && n++ < 100) {}

	int rc = 0;
	const char* ids[] = {"good", "broken"};
	for (auto id : ids) {
		std::cout << id << ": invoking notices " << mon.invoked[id] << ", uninvoking notices " << mon.uninvoked[id] << std::endl;
		if (mon.invoked[id] != mon.uninvoked[id]) rc = 1;
	}
	return rc;
}
