#!/bin/sh
# usage: run.sh <build dir>   -- exits non-zero when the defect shows
set -e
B="${1:?usage: run.sh <build dir>}"
B="$(cd "$B" && pwd)"
HERE="$(cd "$(dirname "$0")" && pwd)"
SRC="$(sed -n 's/^CMAKE_HOME_DIRECTORY:INTERNAL=//p' "$B/CMakeCache.txt")"
[ -n "$SRC" ] || SRC="$(cd "$B/.." && pwd)"
OUT="$(mktemp -d)"
g++ -std=gnu++11 -g -O0 -w -I"$SRC/src" -I"$B" -I"$SRC/contrib/src" -DXERCESC_NS=xercesc_3_2 \
    "$HERE/demo.cpp" -o "$OUT/demo" -L"$B/lib" -luscxml -lxerces-c -lpthread -Wl,-rpath,"$B/lib"
export USCXML_NOCACHE_FILES=1
set +e
rc=0
for engine in large fast; do
	echo "=== engine: $engine"
	"$OUT/demo" $engine 2>/dev/null
	r=$?
	[ $r -ne 0 ] && rc=$r
done
rm -rf "$OUT"
if [ $rc -ne 0 ]; then echo "DEFECT SHOWN"; else echo "no defect observed"; fi
exit $rc
