#!/bin/sh
# usage: run.sh <build dir>; exits non-zero when the defect shows
B=${1:?build dir}
B=$(cd "$B" && pwd)
D=$(cd "$(dirname "$0")" && pwd)
WT=$(cd "$B/.." && pwd)
T=$(mktemp -d)
g++ -std=gnu++11 -O0 -I$WT/src -I$B -I$WT/contrib/src -DXERCESC_NS=xercesc_3_2 "$D/dbgdemo.cpp" -o "$T/dbgdemo" \
    -L$B/lib -luscxml -lxerces-c -lpthread -Wl,-rpath,$B/lib 2>"$T/cc.log" || { cat "$T/cc.log"; exit 2; }
timeout 60 "$T/dbgdemo" "$D/dbg.scxml" 2>/dev/null | grep -v "^\[Info\]"
timeout 60 "$T/dbgdemo" "$D/dbg.scxml" >/dev/null 2>&1
rc=$?
rm -rf "$T"
[ $rc -ne 0 ] && echo "DEFECT shown"
exit $rc
