// Drives uscxml's Debugger (an InterpreterMonitor) in single-step mode and counts how often each
// taken transition is presented to the debugging client. A plain InterpreterMonitor attached to the
// same interpreter counts the notifications the engine actually delivered.
#include "uscxml/Interpreter.h"
#include "uscxml/interpreter/InterpreterImpl.h"
#include "uscxml/interpreter/InterpreterMonitor.h"
#include "uscxml/debug/Debugger.h"
#include "uscxml/debug/DebugSession.h"
#include "uscxml/util/DOM.h"
#include <iostream>
#include <fstream>
#include <sstream>
#include <map>
#include <mutex>
#include <condition_variable>
#include <chrono>

using namespace uscxml;

static std::mutex mtx;
static std::condition_variable cond;
static int breaks = 0;
static bool finished = false;
static std::map<std::string, int> dbgBefore, dbgAfter; // event descriptor -> breaks shown to the client
static std::map<std::string, int> monBefore, monAfter; // event descriptor -> engine notifications

struct Plain : public InterpreterMonitor {
	void beforeTakingTransition(const std::string&, const XERCESC_NS::DOMElement* t) {
		std::lock_guard<std::mutex> l(mtx);
		monBefore[ATTR(t, X("event"))]++;
	}
	void afterTakingTransition(const std::string&, const XERCESC_NS::DOMElement* t) {
		std::lock_guard<std::mutex> l(mtx);
		monAfter[ATTR(t, X("event"))]++;
	}
};

struct Client : public Debugger {
	Interpreter interp;
	void pushData(std::shared_ptr<DebugSession> session, Data d) {
		std::lock_guard<std::mutex> l(mtx);
		if (d.hasKey("replyType") && d["replyType"].atom == "finished") {
			finished = true;
		} else if (d.hasKey("replyType") && d["replyType"].atom == "breakpoint") {
			breaks++;
			const Data& q = d["qualified"];
			if (q.hasKey("subject") && q.at("subject").atom == "transition") {
				// identify the transition by its source and target as the client sees it
				std::string src = q.hasKey("source") ? q.at("source").atom : "?";
				std::string tgt = q.hasKey("target") ? q.at("target").atom : "-";
				std::string ev = (src == "s0" ? (tgt == "p1" || tgt == "q1" ? "e2" : "e1") : "e3");
				std::cout << "client: break " << q.at("when").atom << " transition " << src << " -> " << tgt << std::endl;
				if (q.at("when").atom == "before") dbgBefore[ev]++;
				else dbgAfter[ev]++;
			}
		}
		cond.notify_all();
	}
};

int main(int argc, char** argv) {
	std::ifstream in(argv[1]);
	std::stringstream ss;
	ss << in.rdbuf();

	Client client;
	Plain plain;
	std::shared_ptr<DebugSession> session(new DebugSession());
	session->setDebugger(&client);

	Data prep;
	prep.compound["xml"] = Data(ss.str(), Data::VERBATIM);
	prep.compound["url"] = Data(std::string("file://") + argv[1], Data::VERBATIM);
	Data r = session->debugPrepare(prep);
	if (r["status"].atom != "success") { std::cerr << "cannot prepare" << std::endl; return 2; }
	session->getInterpreter().addMonitor(&plain);

	// single-step through the whole run: every notification is presented to the client as a break
	int seen = 0;
	session->debugStep(Data());
	while (true) {
		std::unique_lock<std::mutex> l(mtx);
		if (!cond.wait_for(l, std::chrono::seconds(5), [&] { return finished || breaks > seen; })) {
			std::cerr << "timeout" << std::endl;
			break;
		}
		if (finished) break;
		seen = breaks;
		l.unlock();
		session->debugStep(Data()); // can only get the session lock once the interpreter thread waits
	}
	session->debugStop(Data());

	int rc = 0;
	const char* evs[] = { "e1", "e2", "e3" };
	const char* what[] = { "targetless", "two targets", "one target" };
	for (int i = 0; i < 3; i++) {
		std::cout << "transition on " << evs[i] << " (" << what[i] << "): engine notified before/after "
		          << monBefore[evs[i]] << "/" << monAfter[evs[i]]
		          << ", debugger presented before/after " << dbgBefore[evs[i]] << "/" << dbgAfter[evs[i]] << std::endl;
		if (dbgBefore[evs[i]] != 1 || dbgAfter[evs[i]] != 1) {
			std::cout << "  DEFECT: a taken transition must be presented exactly once before and once after" << std::endl;
			rc = 1;
		}
	}
	return rc;
}
