// usage: nameless <file.scxml> <large|fast>
// Runs the chart to quiescence without sending any external event and checks the monitor's account:
//  - exactly one onStableConfiguration (there is exactly one macrostep)
//  - no event is processed after a stable-configuration notice (nothing external was sent)
//  - the <invoke> of s0 (left within the macrostep) is never started
#include "uscxml/Interpreter.h"
#include "uscxml/interpreter/InterpreterImpl.h"
#include "uscxml/interpreter/InterpreterMonitor.h"
#include "uscxml/interpreter/FastMicroStep.h"
#include "uscxml/interpreter/LargeMicroStep.h"
#include <iostream>

using namespace uscxml;

struct Rec : public InterpreterMonitor {
	int stable = 0, eventsAfterStable = 0, events = 0, invokes = 0, microsteps = 0;
	void beforeProcessingEvent(const std::string&, const Event& e) {
		events++;
		std::cout << "  beforeProcessingEvent '" << e.name << "'" << (stable ? "   <-- after onStableConfiguration" : "") << std::endl;
		if (stable) eventsAfterStable++;
	}
	void beforeMicroStep(const std::string&) { microsteps++; std::cout << "  beforeMicroStep" << std::endl; }
	void afterMicroStep(const std::string&) { std::cout << "  afterMicroStep" << std::endl; }
	void beforeInvoking(const std::string&, const XERCESC_NS::DOMElement*, const std::string& id) { invokes++; std::cout << "  beforeInvoking " << id << std::endl; }
	void beforeUninvoking(const std::string&, const XERCESC_NS::DOMElement*, const std::string& id) { std::cout << "  beforeUninvoking " << id << std::endl; }
	void onStableConfiguration(const std::string&) { stable++; std::cout << "  onStableConfiguration #" << stable << std::endl; }
};

int main(int argc, char** argv) {
	Interpreter interp = Interpreter::fromURL(argv[1]);
	ActionLanguage al;
	MicroStepCallbacks* cb = (MicroStepCallbacks*)interp.getImpl().get();
	if (std::string(argv[2]) == "fast")
		al.microStepper = MicroStep(std::shared_ptr<MicroStepImpl>(new FastMicroStep(cb)));
	else
		al.microStepper = MicroStep(std::shared_ptr<MicroStepImpl>(new LargeMicroStep(cb)));
	interp.setActionLanguage(al);

	Rec rec;
	interp.addMonitor(&rec);
	InterpreterState st;
	int guard = 0;
	while ((st = interp.step(0)) != USCXML_FINISHED && st != USCXML_IDLE && guard++ < 1000) {}

	std::cout << "  => stable notices: " << rec.stable << " (expected 1), events processed after a stable notice: "
	          << rec.eventsAfterStable << " (expected 0), invocations started: " << rec.invokes << " (expected 0)" << std::endl;
	return (rec.stable == 1 && rec.eventsAfterStable == 0 && rec.invokes == 0) ? 0 : 1;
}
