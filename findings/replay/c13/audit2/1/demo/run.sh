#!/bin/sh
# usage: run.sh <build dir>; exits non-zero when the defect shows
B=${1:?build dir}
B=$(cd "$B" && pwd)
D=$(cd "$(dirname "$0")" && pwd)
WT=$(cd "$B/.." && pwd)
T=$(mktemp -d)
g++ -std=gnu++11 -O0 -I$WT/src -I$B -I$WT/contrib/src -DXERCESC_NS=xercesc_3_2 "$D/nameless.cpp" -o "$T/nameless" \
    -L$B/lib -luscxml -lxerces-c -lpthread -Wl,-rpath,$B/lib 2>"$T/cc.log" || { cat "$T/cc.log"; exit 2; }
rc=0
for e in large fast; do
	echo "== control chart (first internal event is named), engine $e"
	"$T/nameless" "$D/control.scxml" $e 2>/dev/null | grep "^  " || { echo "control run failed"; rc=2; }
	echo "== chart with a nameless internal event, engine $e"
	"$T/nameless" "$D/nameless.scxml" $e 2>/dev/null | grep "^  "
	"$T/nameless" "$D/nameless.scxml" $e >/dev/null 2>&1 || { echo "DEFECT shown on engine $e"; rc=1; }
done
rm -rf "$T"
exit $rc
