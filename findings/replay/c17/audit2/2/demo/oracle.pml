int z = 0; int x = 5;
init {
  printf("min1=%d full1=%d\n", !-z*2, (!(-z))*2);
  printf("min2=%d full2=%d\n", !-x % 1 + 7 / 7, ((!(-x)) % 1) + (7 / 7));
}
