#!/usr/bin/env python3
# differential fuzzer: fuzz.py <build dir> <seed> <count>; compares uscxml against C integer semantics (|| / && mixes are always parenthesised)
import random, subprocess, sys, re
from xml.sax.saxutils import quoteattr
B=sys.argv[1]; seed=int(sys.argv[2]); N=int(sys.argv[3]); random.seed(seed)
env={'x':5,'y':-3,'z':0,'w':2147483647}
arr=[2,0,7]
PREC={'||':1,'&&':2,'==':3,'!=':3,'<':4,'<=':4,'>':4,'>=':4,'<<':5,'>>':5,'+':6,'-':6,'*':7,'/':7,'%':7}
UN=8
class Err(Exception): pass
def w32(v):
    v&=0xffffffff
    return v-(1<<32) if v>=1<<31 else v
def gen(d):
    r=random.random()
    if d==0 or r<0.25:
        c=random.random()
        if c<0.4: return ('c',random.choice([0,1,2,3,7,10,100,2147483647]))
        if c<0.8: return ('v',random.choice(list(env)))
        return ('a',gen(0) if random.random()<0.5 else ('c',random.choice([0,1,2])))
    if r<0.4: return ('u',random.choice(['!','-']),gen(d-1))
    op=random.choice(list(PREC))
    return ('b',op,gen(d-1),gen(d-1))
def ev(t):
    k=t[0]
    if k=='c': return t[1]
    if k=='v': return env[t[1]]
    if k=='a':
        i=ev(t[1])
        if i<0 or i>=3: raise Err()
        return arr[i]
    if k=='u':
        v=ev(t[2])
        return (0 if v else 1) if t[1]=='!' else w32(-v)
    op=t[1]
    if op=='&&':
        l=ev(t[2]); 
        if not l: return 0
        return 1 if ev(t[3]) else 0
    if op=='||':
        l=ev(t[2])
        if l: return 1
        return 1 if ev(t[3]) else 0
    l=ev(t[2]); r=ev(t[3])
    if op=='+': return w32(l+r)
    if op=='-': return w32(l-r)
    if op=='*': return w32(l*r)
    if op in '/%':
        if r==0: raise Err()
        q=abs(l)//abs(r)
        if (l<0)!=(r<0): q=-q
        return w32(q) if op=='/' else w32(l-q*r)
    if op in('<<','>>'):
        if r<0 or r>31 : raise ValueError('ub')
        if op=='<<':
            if l<0: raise ValueError('ub')
            return w32(l<<r)
        return l>>r
    return int({'<':l<r,'<=':l<=r,'>':l>r,'>=':l>=r,'==':l==r,'!=':l!=r}[op])
def pr(t,full=False):
    k=t[0]
    if k=='c': return str(t[1]),9
    if k=='v': return t[1],9
    if k=='a': return 'a[%s]'%pr(t[1],full)[0],9
    if k=='u':
        s,p=pr(t[2],full)
        if full or p<UN or (t[1]=='-' and s.startswith('-')): s='('+s+')'
        return t[1]+s,UN
    op=t[1]; P=PREC[op]
    ls,lp=pr(t[2],full); rs,rp=pr(t[3],full)
    if full or lp<P or (op=='||' and lp==2) or (op=='&&' and lp==1): ls='('+ls+')'
    if full or rp<=P or (op=='||' and rp==2): rs='('+rs+')'
    sp=random.choice(['',' '])
    if op=='-' and rs.startswith('-'): sp=' '
    return ls+sp+op+sp+rs,P
tests=[]
while len(tests)<N:
    t=gen(random.randint(1,4))
    try: exp=ev(t)
    except Err: exp='ERR'
    except ValueError: continue
    tests.append((pr(t)[0],exp)); tests.append((pr(t,True)[0],exp))
out=['<scxml xmlns="http://www.w3.org/2005/07/scxml" version="1.0" datamodel="promela"><datamodel>']
for k,v in env.items(): out.append('<data id="%s" type="int" expr="%d"/>'%(k,v))
out.append('<data id="a" type="int[3]"/></datamodel><state id="s"><onentry><assign location="a[0]" expr="2"/><assign location="a[2]" expr="7"/></onentry>')
for i,(s,e) in enumerate(tests):
    out.append('<onentry><log label="T%d" expr=%s/></onentry>'%(i,quoteattr(s)))
out.append('<transition target="f"/></state><final id="f"/></scxml>')
open('/tmp/c17_fz.scxml','w').write('\n'.join(out))
res=subprocess.run([B+'/bin/uscxml-browser','/tmp/c17_fz.scxml'],capture_output=True,text=True,timeout=300)
got={}
for m in re.finditer(r'\[Log\] T(\d+): (\S+)',res.stdout+res.stderr): got[int(m.group(1))]=m.group(2)
bad=0
for i,(s,e) in enumerate(tests):
    g=got.get(i,'ERR')
    if str(e)!=g:
        bad+=1; print('MISMATCH',repr(s),'expected',e,'got',g)
print('ran',len(tests),'bad',bad, 'rc',res.returncode)
