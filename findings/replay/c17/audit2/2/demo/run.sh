#!/bin/sh
# usage: run.sh <build dir>; exits 1 when the defect shows
B=${1:?build dir}
D=$(dirname "$0")
OUT=$("$B/bin/uscxml-browser" "$D/umin.scxml" 2>&1)
echo "$OUT" | grep -E '^\[Log\]|"cause"'
if command -v spin >/dev/null 2>&1; then echo "--- spin on oracle.pml:"; (cd "$D" && spin oracle.pml | grep '='); fi
fail=0
# C and spin: !-z*2 == (!(-z))*2 == 2 for z == 0;  !-x % 1 + 7 / 7 == 1 for x == 5
echo "$OUT" | grep -q '^\[Log\] full1: 2$' || { echo "unexpected: fully parenthesised form 1"; fail=2; }
echo "$OUT" | grep -q '^\[Log\] full2: 1$' || { echo "unexpected: fully parenthesised form 2"; fail=2; }
echo "$OUT" | grep -q '^\[Log\] min1: 2$'  || { echo "DEFECT: '!-z*2' differs from '(!(-z))*2'"; fail=1; }
echo "$OUT" | grep -q '^\[Log\] min2: 1$'  || { echo "DEFECT: '!-x % 1 + 7 / 7' differs from '((!(-x)) % 1) + (7 / 7)'"; fail=1; }
echo "$OUT" | grep -q 'outcome: "pass"'    || { echo "DEFECT: transition with cond '!-z*2 == 2' was not taken"; fail=1; }
exit $fail
