#!/bin/sh
# usage: run.sh <build dir>; exits 1 when the defect shows
B=${1:?build dir}
D=$(dirname "$0")
OUT=$("$B/bin/uscxml-browser" "$D/stmts.scxml" 2>&1)
echo "$OUT" | grep -E '^\[Log\]|"cause"'
fail=0
# spin: x = 2; y = 3 -> 23, x++ -> 3, a[1]-- -> -1, int q = 4 -> 4, finally x*10+y = 33
echo "$OUT" | grep -q '^\[Log\] sequence: 23$' || { echo "DEFECT: statement sequence 'x = 2; y = 3' was not executed"; fail=1; }
echo "$OUT" | grep -q '^\[Log\] incr: 3$'      || { echo "DEFECT: 'x++' was not executed"; fail=1; }
echo "$OUT" | grep -q '^\[Log\] decr: -1$'     || { echo "DEFECT: 'a[1]--' was not executed"; fail=1; }
echo "$OUT" | grep -q '^\[Log\] decl: 4$'      || { echo "DEFECT: declaration 'int q = 4' was not executed"; fail=1; }
echo "$OUT" | grep -q '^\[Log\] final: 33$'    || { echo "DEFECT: final store differs from Promela's (expected x*10+y == 33)"; fail=1; }
exit $fail
