byte b = 255; short sh = 32767; bit bt = 1; bool bl = 1; byte ba[2]; byte b3 = 300;
init {
  b = b + 1; sh = sh + 1; bt = bt + 1; bl = 2; ba[1] = 0 - 1;
  printf("b=%d sh=%d bt=%d bl=%d ba1=%d b3=%d\n", b, sh, bt, bl, ba[1], b3);
}
