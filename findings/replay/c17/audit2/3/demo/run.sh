#!/bin/sh
# usage: run.sh <build dir>; exits 1 when the defect shows
B=${1:?build dir}
D=$(dirname "$0")
OUT=$("$B/bin/uscxml-browser" "$D/width.scxml" 2>&1)
echo "$OUT" | grep -E '^\[Log\]|"cause"'
if command -v spin >/dev/null 2>&1; then echo "--- spin on oracle.pml:"; (cd "$D" && spin oracle.pml 2>/dev/null | grep '='); fi
fail=0
chk() { echo "$OUT" | grep -q "^\[Log\] $1: $2\$" || { echo "DEFECT: $3 (Promela: $2)"; fail=1; }; }
chk b   0      "byte b = 255; b = b + 1 does not wrap to 0"
chk sh  -32768 "short sh = 32767; sh = sh + 1 does not wrap"
chk bt  0      "bit bt = 1; bt = bt + 1 keeps more than one bit"
chk bl  0      "bool bl = 2 keeps more than one bit"
chk ba1 255    "byte ba[2]; ba[1] = 0 - 1 stays negative"
chk b3  44     "byte b3 = 300 is not truncated by the declaration"
echo "$OUT" | grep -q 'outcome: "pass"' || { echo "DEFECT: transition with cond 'b == 0' not taken after the byte counter wrapped"; fail=1; }
exit $fail
