#!/bin/sh
# usage: run.sh <build-dir>    exit 1 = defect shows, 0 = behaves as Promela, 2 = could not run
B=${1:?build dir}
D=$(cd "$(dirname "$0")" && pwd)
[ -x "$B/bin/uscxml-browser" ] || { echo "no uscxml-browser in $B/bin"; exit 2; }
OUT=$(timeout 60 "$B/bin/uscxml-browser" "$D/fields.scxml" 2>&1)
echo "$OUT" | grep -v "server listening"
if echo "$OUT" | grep -q 'Outcome: "pass"'; then echo "OK: struct fields read back what was written"; exit 0; fi
if echo "$OUT" | grep -q 'Outcome: "fail"'; then echo "DEFECT: struct fields / array elements in structs do not read back the value last written"; exit 1; fi
echo "unexpected output"; exit 2
