#!/bin/sh
# usage: run.sh <build-dir>    exit 1 = defect shows, 0 = behaves as Promela, 2 = could not run
B=${1:?build dir}
D=$(cd "$(dirname "$0")" && pwd)
[ -x "$B/bin/uscxml-browser" ] || { echo "no uscxml-browser in $B/bin"; exit 2; }
OUT=$(timeout 60 "$B/bin/uscxml-browser" "$D/uninit.scxml" 2>&1)
echo "$OUT" | grep -v "server listening"
if echo "$OUT" | grep -q 'Outcome: "pass"'; then echo "OK: uninitialised variables read as 0"; exit 0; fi
if echo "$OUT" | grep -q 'Outcome: "fail"'; then echo "DEFECT: declared-but-uninitialised promela variables are not 0"; exit 1; fi
echo "unexpected output"; exit 2
