/* reference values: spin reference.pml */
int r;
init {
  r = 2147483648;  printf("r1=%d\n", r);
  r = -2147483648; printf("r2=%d\n", r);
  r = 4294967297;  printf("r3=%d\n", r);
  printf("r5=%d\n", (2147483648 == 2147483647));
  printf("r6=%d\n", skip);
}
