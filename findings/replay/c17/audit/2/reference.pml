/* reference values: spin reference.pml */
int x = 0; int i = 3; int a[3];
init {
  printf("r1=%d\n", (x != 0 && 10 / x > 1));
  printf("r2=%d\n", (x == 0 || 10 / x > 1));
  printf("r3=%d\n", (i < 3 && a[i] == 0));
}
