#!/bin/sh
# usage: run.sh <build-dir>    exit 1 = defect shows, 0 = behaves as Promela, 2 = could not run
B=${1:?build dir}
D=$(cd "$(dirname "$0")" && pwd)
[ -x "$B/bin/uscxml-browser" ] || { echo "no uscxml-browser in $B/bin"; exit 2; }
command -v spin >/dev/null && { echo "--- spin reference:"; (cd "$D" && spin reference.pml 2>&1 | grep "r[0-9]="); echo "---"; }
OUT=$(timeout 60 "$B/bin/uscxml-browser" "$D/shortcircuit.scxml" 2>&1)
echo "$OUT" | grep -v "server listening"
if echo "$OUT" | grep -q 'Outcome: "pass"'; then echo "OK: && and || short-circuit"; exit 0; fi
if echo "$OUT" | grep -q 'Outcome: "fail"'; then echo "DEFECT: right operand of && / || evaluated although the left operand decides"; exit 1; fi
echo "unexpected output"; exit 2
