// Replay for C09 findings R09.1/R09.2: cancel of a delayed event while its timer callback is delivering it.
// Uses the real BasicDelayedEventQueue with a callbacks object that holds the delivery open (forces the window
// between "timer freed + unlocked" and "entry erased" that InterpreterImpl::eventReady opens for microseconds).
#include "uscxml/uscxml.h"
#include "uscxml/interpreter/BasicDelayedEventQueue.h"
#include <atomic>
#include <chrono>
#include <iostream>
#include <thread>
#include <unistd.h>
using namespace uscxml;
static std::atomic<int> delivering(0), delivered(0);
struct CB : public DelayedEventQueueCallbacks {
	void eventReady(Event& e, const std::string& uuid) {
		delivering = 1;
		std::this_thread::sleep_for(std::chrono::milliseconds(400)); // delivery in progress
		delivered++;
	}
};
int main() {
	CB cb;
	BasicDelayedEventQueue q(&cb);
	Event e; e.name = "foo";
	q.enqueueDelayed(e, 50, "uuid-1");
	while (!delivering) std::this_thread::sleep_for(std::chrono::milliseconds(5));
	std::cout << "callback is delivering, cancelling the same event now" << std::endl;
	std::thread watchdog([] { std::this_thread::sleep_for(std::chrono::seconds(5)); std::cout << "DEADLOCK: cancelDelayed did not return within 5s" << std::endl; _exit(3); });
	watchdog.detach();
	q.cancelDelayed("uuid-1");
	std::cout << "cancelDelayed returned; delivered=" << delivered << std::endl;
	std::this_thread::sleep_for(std::chrono::milliseconds(600));
	std::cout << "done, delivered=" << delivered << std::endl;
	return 0;
}
