// Data::fromJSON does not release its token buffer on any of the paths that reject a text.
#include "uscxml/messages/Data.h"
#include "uscxml/messages/Event.h"
#include <iostream>
#include <cstring>
#include <cstdio>
#include <malloc.h>

using namespace uscxml;

static size_t heapInUse() {
#if defined(__GLIBC__) && (__GLIBC__ > 2 || (__GLIBC__ == 2 && __GLIBC_MINOR__ >= 33))
	struct mallinfo2 mi = mallinfo2();
#else
	struct mallinfo mi = mallinfo();
#endif
	return (size_t)mi.uordblks + (size_t)mi.hblkhd; // allocated from the arena + allocated by mmap
}

static size_t run(const char* what, const std::string& text, int rounds) {
	size_t before = heapInUse();
	int thrown = 0, empty = 0;
	for (int i = 0; i < rounds; i++) {
		try {
			Data d = Data::fromJSON(text);
			if (d.empty())
				empty++;
		} catch (Event e) {
			thrown++;
		}
	}
	size_t after = heapInUse();
	size_t grown = after > before ? after - before : 0;
	std::cout << what << ": " << rounds << " texts of " << text.size() << " bytes, " << thrown << " error.platform, " << empty
	          << " empty results, heap in use grew by " << grown / 1024 << " kB (" << grown / rounds << " bytes per text)" << std::endl;
	return grown;
}

int main() {
	const int rounds = 100;
	const size_t len = 1000000;
	bool leak = false;

	// accepted text as a control: nothing may stay allocated
	std::string good = "[\"" + std::string(len, 'a') + "\"]";
	size_t g0 = run("accepted  [\"aaa...\"]          ", good, rounds);

	// JSMN_ERROR_PART: string never closed
	std::string part = "[\"" + std::string(len, 'a');
	size_t g1 = run("rejected  unterminated string ", part, rounds);

	// JSMN_ERROR_INVAL: brackets do not match
	std::string inval = "[\"" + std::string(len, 'a') + "\"}";
	size_t g2 = run("rejected  [ closed by }       ", inval, rounds);

	// parsed, but text behind the first value: "return data" without free
	std::string trailing = "[1]" + std::string(len, 'x');
	size_t g3 = run("rejected  text behind value   ", trailing, rounds);

	if (g0 > 1024 * 1024) {
		std::cout << "unexpected: the accepted text leaks as well" << std::endl;
		leak = true;
	}
	if (g1 > rounds * 100000 || g2 > rounds * 100000 || g3 > rounds * 100000)
		leak = true;

	if (leak) {
		std::cout << "DEFECT: every rejected JSON text leaves its token buffer (2 to 16 bytes per input byte) allocated" << std::endl;
		return 1;
	}
	std::cout << "ok: rejected texts release their token buffer" << std::endl;
	return 0;
}
