// Data::operator== (and !=, <) need time exponential in the nesting depth of the two values:
// comparing a value with its own JSON round trip doubles in cost with every level.
#include "uscxml/messages/Data.h"
#include "uscxml/messages/Event.h"
#include <iostream>
#include <chrono>

using namespace uscxml;

static Data nested(int depth, bool asMap) {
	Data leaf("x", Data::VERBATIM);
	Data curr = leaf;
	for (int i = 0; i < depth; i++) {
		Data outer;
		if (asMap) {
			outer.put("k", curr);
		} else {
			std::list<Data> l;
			l.push_back(curr);
			outer.setArray(l);
		}
		curr = outer;
	}
	return curr;
}

static double eqMs(const Data& a, const Data& b, bool& eq) {
	auto t0 = std::chrono::steady_clock::now();
	eq = (a == b);
	auto t1 = std::chrono::steady_clock::now();
	return std::chrono::duration_cast<std::chrono::microseconds>(t1 - t0).count() / 1000.0;
}

int main() {
	double last = 0, first = 0;
	for (int asMap = 0; asMap <= 1; asMap++) {
		for (int depth = 14; depth <= 26; depth += 4) {
			Data a = nested(depth, asMap);
			std::string json = Data::toJSON(a);
			Data b = Data::fromJSON(json);
			bool eq;
			double ms = eqMs(a, b, eq);
			std::cout << (asMap ? "maps  " : "arrays") << " nested " << depth << " deep (" << json.size() << " bytes of JSON): fromJSON(toJSON(x)) == x is "
			          << (eq ? "true" : "false") << " after " << ms << " ms" << std::endl;
			if (depth == 14) first = ms;
			last = ms;
		}
	}

	// an event carrying such a payload: Event::operator== compares the data
	Event e1("foo");
	e1.data = nested(24, false);
	Data asData = e1.operator Data();
	Event e2 = Event::fromData(Data::fromJSON(Data::toJSON(asData)));
	auto t0 = std::chrono::steady_clock::now();
	bool same = (e1 == e2);
	auto t1 = std::chrono::steady_clock::now();
	std::cout << "event with payload nested 24 deep: e == fromData(fromJSON(toJSON(e))) is " << (same ? "true" : "false") << " after "
	          << std::chrono::duration_cast<std::chrono::milliseconds>(t1 - t0).count() << " ms" << std::endl;

	// 12 more levels multiply the cost by 4096 when every level doubles it; a linear comparison stays below a millisecond
	if (last > 500.0 && last > 500.0 * (first > 0.001 ? first : 0.001)) {
		std::cout << "DEFECT: the cost of comparing two Data doubles with every nesting level (depth 40: hours, depth 1000 is accepted by fromJSON)" << std::endl;
		return 1;
	}
	std::cout << "ok: comparison time does not explode with the depth" << std::endl;
	return 0;
}
