// Data::fromJSON needs time quadratic in the number of closed containers:
// "[[],[],[], ... ]" with n empty arrays. The same number of bytes as "[1,1,1, ... ]" parses in milliseconds.
#include "uscxml/messages/Data.h"
#include "uscxml/messages/Event.h"
#include <iostream>
#include <chrono>

using namespace uscxml;

static double parseMs(const std::string& js, size_t& items) {
	auto t0 = std::chrono::steady_clock::now();
	Data d;
	try {
		d = Data::fromJSON(js);
	} catch (Event e) {
		std::cout << "  rejected: " << e.data.at("cause").getAtom() << std::endl;
	}
	auto t1 = std::chrono::steady_clock::now();
	items = d.getArray().size();
	return std::chrono::duration_cast<std::chrono::microseconds>(t1 - t0).count() / 1000.0;
}

static std::string many(const std::string& item, size_t n) {
	std::string js = "[";
	for (size_t i = 0; i < n; i++) {
		if (i) js += ",";
		js += item;
	}
	return js + "]";
}

int main() {
	size_t items;
	double flat = parseMs(many("11", 120000), items);
	std::cout << "control  [11,11,...]  n=120000 (" << many("11", 120000).size() << " bytes): " << flat << " ms, " << items << " items" << std::endl;

	double tSmall = parseMs(many("[]", 30000), items);
	std::cout << "nested   [[],[],...]  n=30000  (" << many("[]", 30000).size() << " bytes): " << tSmall << " ms, " << items << " items" << std::endl;
	double tBig = parseMs(many("[]", 120000), items);
	std::cout << "nested   [[],[],...]  n=120000 (" << many("[]", 120000).size() << " bytes): " << tBig << " ms, " << items << " items" << std::endl;

	double ratio = tBig / (tSmall > 0.01 ? tSmall : 0.01);
	std::cout << "4x the input costs " << ratio << "x the time; same size as the control costs " << tBig / (flat > 0.01 ? flat : 0.01) << "x the time" << std::endl;

	// linear behaviour: ratio about 4 and a few milliseconds. Quadratic: ratio about 16 and seconds.
	if (tBig > 1000.0 && ratio > 8.0) {
		std::cout << "DEFECT: parse time grows quadratically with the number of containers (a 1.2 MB text needs about two minutes, 12 MB hours)" << std::endl;
		return 1;
	}
	std::cout << "ok: parse time is linear" << std::endl;
	return 0;
}
