#!/bin/bash
# usage: run.sh <build dir>; exits 1 when the defect shows, 0 when it does not, 2 on setup trouble
B=$(cd "${1:?build dir}" && pwd) || exit 2
HERE=$(cd "$(dirname "$0")" && pwd)
SRC=$(sed -n 's/^CMAKE_HOME_DIRECTORY:INTERNAL=//p' "$B/CMakeCache.txt")
[ -d "$SRC/src" ] || SRC=$(cd "$B/.." && pwd)
OUT=$(mktemp -d)
g++ -O1 -g -std=gnu++11 -w -I"$SRC/src" -I"$B" -I"$SRC/contrib/src" -DXERCESC_NS=xercesc_3_2 \
    "$HERE/repro.cpp" -o "$OUT/repro" -L"$B/lib" -luscxml -lxerces-c -Wl,-rpath,"$B/lib" || exit 2
"$OUT/repro"
rc=$?
rm -rf "$OUT"
exit $rc
