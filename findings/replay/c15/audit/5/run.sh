#!/bin/bash
# usage: run.sh <build dir>; exits 1 when the process dies on deeply nested (well-formed) JSON
set -u
B=$(cd "$1" && pwd); D=$(cd "$(dirname "$0")" && pwd)
SRC=$(grep '^CMAKE_HOME_DIRECTORY' "$B/CMakeCache.txt" | cut -d= -f2)
T=$(mktemp -d)
g++ -std=gnu++11 -w -I"$SRC/src" -I"$B" -I"$SRC/contrib/src" -DXERCESC_NS=xercesc_3_2 "$D/deep.cpp" -o "$T/deep" -L"$B/lib" -luscxml -lxerces-c -Wl,-rpath,"$B/lib" || exit 2
rc=0
for n in 100 20000 200000; do
  timeout 120 "$T/deep" $n; r=$?
  if [ $r -ne 0 ]; then echo "DEFECT: process ended with status $r on $n nested arrays"; rc=1; fi
done
rm -rf "$T"; exit $rc
