// Data::fromJSON on deeply nested input: must yield a value or fail cleanly (an ErrorEvent), not kill the process
#include "uscxml/messages/Data.h"
#include "uscxml/messages/Event.h"
#include <iostream>
#include <cstdlib>
using namespace uscxml;
int main(int argc, char** argv) {
	size_t depth = argc > 1 ? strtoul(argv[1], NULL, 10) : 100000;
	std::string text = std::string(depth, '[') + std::string(depth, ']');
	try {
		Data d = Data::fromJSON(text);
		std::cout << "parsed depth " << depth << std::endl;
	} catch (ErrorEvent& e) {
		std::cout << "rejected cleanly at depth " << depth << std::endl;
		return 0;
	}
	std::cout << "destroyed" << std::endl; // reached only if ~Data survived
	return 0;
}
