#!/bin/bash
# usage: run.sh <build dir>     exits non-zero when the defect shows
B=$(cd "${1:?build dir}" && pwd)
HERE=$(cd "$(dirname "$0")" && pwd)
SRC=$(sed -n 's/^CMAKE_HOME_DIRECTORY:INTERNAL=//p' "$B/CMakeCache.txt")
TMP=$(mktemp -d)
g++ -g -std=gnu++11 -I"$SRC/src" -I"$B" -I"$SRC/contrib/src" -DXERCESC_NS=xercesc_3_2 \
    "$HERE/empty.cpp" -o "$TMP/empty" -L"$B/lib" -luscxml -lxerces-c -Wl,-rpath,"$B/lib" || exit 99
"$TMP/empty"; rc=$?
rm -rf "$TMP"
[ $rc -ne 0 ] && echo "DEFECT: empty members come back as the atom null; a top level string or number comes back empty"
exit $rc
