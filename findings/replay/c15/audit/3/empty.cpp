// Round trip Data -> JSON -> Data for maps/arrays with an empty member, and for a top level atom.
#include "uscxml/messages/Data.h"
#include "uscxml/messages/Event.h"
#include <iostream>
using namespace uscxml;

static std::string flat(std::string s) { for (auto& c : s) if (c == '\n') c = ' '; return s; }

static int roundtrip(const char* label, const Data& d) {
	std::string js = Data::toJSON(d);
	Data back = Data::fromJSON(js);
	if (back == d) { std::cout << label << ": ok" << std::endl; return 0; }
	std::cout << label << ": DIFFERENT  json=" << flat(js) << std::endl;
	return 1;
}

int main() {
	int bad = 0;
	{
		Data d; d["list"] = Data(); // a map whose member is an empty array / empty map / nothing
		bad += roundtrip("map with an empty member", d);
		Data back = Data::fromJSON(Data::toJSON(d));
		std::cout << "   original member: empty()=" << d["list"].empty() << " atom='" << d["list"].atom << "'"
		          << "   after round trip: empty()=" << back["list"].empty() << " atom='" << back["list"].atom << "'" << std::endl;
	}
	{
		Data d; d.array.push_back(Data()); d.array.push_back(Data(2));
		bad += roundtrip("array with an empty element", d);
	}
	{
		// an event without payload, the way the interpreter serializes its queues
		Event e("foo", Event::EXTERNAL);
		Data asData = e;
		Event back = Event::fromData(Data::fromJSON(Data::toJSON(asData)));
		std::cout << "event without data through JSON: " << (back == e ? "ok" : "DIFFERENT")
		          << "  data.empty() before=" << e.data.empty() << " after=" << back.data.empty()
		          << " data.atom after='" << back.data.atom << "'" << std::endl;
		if (!(back == e)) bad++;
	}
	{
		Data d("top", Data::VERBATIM);
		bad += roundtrip("a single string", d);
	}
	{
		Data d(42);
		bad += roundtrip("a single number", d);
	}
	return bad ? 1 : 0;
}
