#!/bin/bash
# usage: run.sh <build dir>     exits non-zero when the defect shows
B=$(cd "${1:?build dir}" && pwd)
HERE=$(cd "$(dirname "$0")" && pwd)
SRC=$(sed -n 's/^CMAKE_HOME_DIRECTORY:INTERNAL=//p' "$B/CMakeCache.txt")
TMP=$(mktemp -d)
g++ -g -std=gnu++11 -I"$SRC/src" -I"$B" -I"$SRC/contrib/src" -DXERCESC_NS=xercesc_3_2 \
    "$HERE/params.cpp" -o "$TMP/params" -L"$B/lib" -luscxml -lxerces-c -Wl,-rpath,"$B/lib" || exit 99
bad=0
for text in '{"name":"foo","params":[1]}' '{"name":"foo","params":[{"a":1},"x"]}' '{"name":"foo","params":[[1,2]]}'; do
	timeout 20 "$TMP/params" "$text" > "$TMP/out.log" 2>&1
	rc=$?
	cat "$TMP/out.log"
	if [ $rc -ne 0 ]; then
		echo "DEFECT: Event::fromData died with exit status $rc on $text"
		bad=1
	fi
done
if command -v valgrind >/dev/null; then
	valgrind -q --error-exitcode=42 "$TMP/params" > "$TMP/vg.log" 2>&1
	if [ $? -ne 0 ]; then
		echo "valgrind:"; grep -E "Invalid|Conditional|at 0x|by 0x" "$TMP/vg.log" | head -8
		bad=1
	fi
fi
rm -rf "$TMP"
exit $bad
