// Event::fromData on a value whose "params" member is not a list of one-entry maps.
#include "uscxml/messages/Data.h"
#include "uscxml/messages/Event.h"
#include <iostream>
using namespace uscxml;

int main(int argc, char** argv) {
	std::string text = argc > 1 ? argv[1] : "{\"name\":\"foo\",\"params\":[1]}";
	std::cout << "input: " << text << std::endl;
	try {
		Data d = Data::fromJSON(text);
		Event e = Event::fromData(d);
		std::cout << "event '" << e.name << "' with " << e.params.size() << " params" << std::endl;
		for (auto& p : e.params)
			std::cout << "  param key length " << p.first.size() << std::endl;
	} catch (Event err) {
		std::cout << "clean failure: " << err.data.compound["cause"].atom << std::endl;
	}
	return 0;
}
