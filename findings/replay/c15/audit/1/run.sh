#!/bin/bash
# usage: run.sh <build dir>     exits non-zero when the defect shows
B=$(cd "${1:?build dir}" && pwd)
HERE=$(cd "$(dirname "$0")" && pwd)
SRC=$(sed -n 's/^CMAKE_HOME_DIRECTORY:INTERNAL=//p' "$B/CMakeCache.txt")
TMP=$(mktemp -d)
g++ -g -std=gnu++11 -I"$SRC/src" -I"$B" -I"$SRC/contrib/src" -DXERCESC_NS=xercesc_3_2 \
    "$HERE/overread.cpp" -o "$TMP/overread" -L"$B/lib" -luscxml -lxerces-c -Wl,-rpath,"$B/lib" || exit 99

bad=0

# 1. out-of-bounds read, seen by valgrind on the 5 byte input {"a"}
if command -v valgrind >/dev/null; then
	valgrind -q --error-exitcode=42 "$TMP/overread" small > "$TMP/vg.log" 2>&1
	if [ $? -eq 42 ]; then
		echo "DEFECT: valgrind reports an invalid read in Data::fromJSON for {\"a\"}:"
		grep -A4 "Invalid read" "$TMP/vg.log" | head -8
		bad=1
	else
		echo "valgrind: no invalid read for {\"a\"}"
	fi
fi

# 2. consequence without any tool: the 48 byte input makes fromJSON spin forever
#    (depends on the heap bytes behind the token array: always with ASLR off, about every second run with ASLR on)
NOASLR=""
if setarch "$(uname -m)" -R true 2>/dev/null; then NOASLR="setarch $(uname -m) -R"; fi
hung=0; bogus=0
for i in 1 2 3 4 5 6 7 8; do
	$NOASLR timeout 5 "$TMP/overread" hang > "$TMP/hang.log" 2>&1
	rc=$?
	[ $rc -eq 124 ] && hung=$((hung+1))
	[ $rc -eq 3 ] && bogus=$((bogus+1))
done
echo "48 byte input, 8 runs: $hung did not terminate within 5 s, $bogus returned a fabricated key"
if [ $hung -gt 0 ] || [ $bogus -gt 0 ]; then
	echo "DEFECT: Data::fromJSON loops forever / returns garbage on a 48 byte input"
	bad=1
fi
rm -rf "$TMP"
exit $bad
