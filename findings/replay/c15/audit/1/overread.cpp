// Demonstrates the heap over-read / endless loop in Data::fromJSON (unmodified libuscxml).
//   overread small      -> parses {"a"}            (5 bytes; run under valgrind to see the invalid read)
//   overread hang       -> parses the 48 byte text {"a":1,"a":1,"a":1,"a":1,"a":1,"a"            }
#include "uscxml/messages/Data.h"
#include "uscxml/messages/Event.h"
#include <iostream>
using namespace uscxml;

int main(int argc, char** argv) {
	std::string mode = argc > 1 ? argv[1] : "small";
	std::string s;
	if (mode == "small") {
		s = "{\"a\"}";
	} else {
		// 12 tokens (1 object, 6 keys, 5 values) in 48 bytes: 48/4 == 12, the token budget is exactly used up
		s = "{\"a\":1,\"a\":1,\"a\":1,\"a\":1,\"a\":1,\"a\"";
		s += std::string(48 - 1 - s.size(), ' ');
		s += "}";
	}
	std::cout << "input (" << s.size() << " bytes): " << s << std::endl;
	try {
		Data d = Data::fromJSON(s);
		std::cout << "parsed, keys:";
		for (auto& kv : d.compound) std::cout << " <" << kv.first << ">";
		std::cout << std::endl;
		// the only key in the text is "a"
		if (d.compound.size() != 1) {
			std::cout << "BOGUS KEY: the result has a key that does not occur in the input" << std::endl;
			return 3;
		}
	} catch (Event e) {
		std::cout << "clean failure: " << e.data.compound["cause"].atom << std::endl;
	}
	return 0;
}
