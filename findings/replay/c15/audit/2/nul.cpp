// Round trip Data -> JSON -> Data for strings with control characters, and \uXXXX decoding.
#include "uscxml/messages/Data.h"
#include "uscxml/messages/Event.h"
#include <iostream>
#include <cstdio>
using namespace uscxml;

static std::string show(const std::string& s) {
	std::string o;
	for (unsigned char c : s) { char b[8]; if (c < 32 || c > 126) { snprintf(b, 8, "\\x%02x", c); o += b; } else o += c; }
	return o;
}

static int roundtrip(const char* label, const Data& d) {
	std::string js = Data::toJSON(d);
	try {
		Data back = Data::fromJSON(js);
		if (back == d) { std::cout << label << ": ok" << std::endl; return 0; }
		std::cout << label << ": DIFFERENT after round trip, json=" << show(js) << std::endl;
	} catch (Event e) {
		std::cout << label << ": fromJSON(toJSON(d)) THROWS '" << e.data.compound["cause"].atom << "' json=" << show(js) << std::endl;
	}
	return 1;
}

int main() {
	int bad = 0;
	{ Data d; d["k"] = Data(std::string("a\0b", 3), Data::VERBATIM); bad += roundtrip("string value with NUL byte", d); }
	{ Data d; d[std::string("k\0", 2)] = Data(1); bad += roundtrip("key with NUL byte", d); }
	{ Data d; d.array.push_back(Data(std::string("\0", 1), Data::VERBATIM)); bad += roundtrip("array of one NUL string", d); }
	{ Data d; d["k"] = Data(std::string("\x01\x1f\x7f\v"), Data::VERBATIM); bad += roundtrip("other control characters", d); }

	// the escape every other JSON writer uses for such characters is not understood either
	std::string got = Data::fromJSON("[\"\\u0041\\u0000\\u00e4\"]").array.front().atom;
	std::cout << "fromJSON([\"\\u0041\\u0000\\u00e4\"]) = '" << show(got) << "' (expected 'A\\x00\\xc3\\xa4')" << std::endl;
	if (got != std::string("A\0\xc3\xa4", 4)) bad++;
	return bad ? 1 : 0;
}
