// Replay for C10/C09 finding: BasicDelayedEventQueue::serialize() joins the timer thread while holding the queue
// mutex that the timer callback takes first thing.  The serialising thread is pre-empted right after taking the
// mutex (first statement of serialize, modelled by taking the recursive mutex a little earlier).
#include "uscxml/uscxml.h"
#include "uscxml/interpreter/BasicDelayedEventQueue.h"
#include <chrono>
#include <iostream>
#include <thread>
#include <unistd.h>
using namespace uscxml;
struct CB : public DelayedEventQueueCallbacks { void eventReady(Event& e, const std::string& uuid) {} };
struct Q : public BasicDelayedEventQueue {
	Q(DelayedEventQueueCallbacks* cb) : BasicDelayedEventQueue(cb) {}
	void serializeSlowly() { std::lock_guard<std::recursive_mutex> lock(_mutex); std::this_thread::sleep_for(std::chrono::milliseconds(300)); serialize(); }
};
int main() {
	CB cb; Q q(&cb); Event e; e.name = "foo";
	q.enqueueDelayed(e, 50, "uuid-1");
	std::thread([] { std::this_thread::sleep_for(std::chrono::seconds(5)); std::cout << "DEADLOCK: serialize() did not return within 5s" << std::endl; _exit(3); }).detach();
	q.serializeSlowly();
	std::cout << "serialize returned" << std::endl;
	return 0;
}
