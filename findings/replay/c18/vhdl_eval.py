#!/usr/bin/env python3
"""Replay helper for C18 findings (NOT part of any check): evaluates the combinational micro-step equations that
uscxml-transform -tvhdl emitted for a document, for one configuration and one event, and prints the next configuration.

usage: vhdl_eval.py file.vhdl --active 0,1 [--event NAME | --spontaneous] [--cond 3=1,...] [--set sig=1,...]
The emitted architecture assigns every signal once with `sig <= <and/or/not expression>;` -- the script parses exactly those.
"""
import argparse, re, sys

def tokenize(s):
    return re.findall(r"\(|\)|'[01]'|[A-Za-z_][A-Za-z0-9_]*", s)

def parse(tokens):
    pos = [0]
    def peek():
        return tokens[pos[0]] if pos[0] < len(tokens) else None
    def take():
        t = tokens[pos[0]]; pos[0] += 1; return t
    def unary():
        t = peek()
        if t == 'not':
            take(); return ('not', unary())
        if t == '(':
            take(); e = expr(); assert take() == ')'; return e
        take()
        return t
    def expr():
        e = unary()
        while peek() in ('and', 'or'):
            op = take(); e = (op, e, unary())
        return e
    e = expr()
    assert pos[0] == len(tokens), tokens[pos[0]:]
    return e

def main():
    ap = argparse.ArgumentParser()
    ap.add_argument('vhdl'); ap.add_argument('--active', default='')
    ap.add_argument('--event'); ap.add_argument('--spontaneous', action='store_true'); ap.add_argument('--cond', default=''); ap.add_argument('--set', default='', help='force signals, e.g. in_complete_entry_set_0_sig=1 (value after reset)')
    a = ap.parse_args()
    text = open(a.vhdl).read()
    m = re.search(r'-- optimal transition set selection(.*?)-- State Handler', text, re.S)
    if not m:
        # fall back: everything between the first equation comment and the state handler
        m = re.search(r'architecture behavioral of micro_stepper(.*)', text, re.S)
    body = text
    eqs = {}
    for lhs, rhs in re.findall(r'^\s*([A-Za-z_0-9]+)\s*<=\s*((?:[^;"]|\n)*?);', body, re.M):
        toks = tokenize(rhs)
        if not toks or any(t in ('when', 'else', 'after') for t in toks):
            continue
        try:
            eqs.setdefault(lhs, parse(toks))
        except Exception:
            pass
    active = {int(x) for x in a.active.split(',') if x}
    conds = dict(x.split('=') for x in a.cond.split(',') if x)
    env = {k: v == '1' for k, v in (x.split('=') for x in a.set.split(',') if x)}
    def val(name):
        if name in ("'1'",): return True
        if name in ("'0'",): return False
        if name in env: return env[name]
        mm = re.match(r'state_active_(\d+)_sig$', name)
        if mm: return int(mm.group(1)) in active
        mm = re.match(r'event_(.*)_sig$', name)
        if mm: return (not a.spontaneous) and a.event is not None and mm.group(1) == a.event
        mm = re.match(r'transition_condition_fulfilled_(\d+)_i$', name)
        if mm: return conds.get(mm.group(1), '1') == '1'
        if name == 'spontaneous_en': return a.spontaneous
        if name == 'completed_sig' and name not in eqs: return False
        if name in eqs:
            env[name] = None
            v = ev(eqs[name]); env[name] = v; return v
        raise KeyError(name)
    def ev(e):
        if isinstance(e, str): return val(e)
        if e[0] == 'not': return not ev(e[1])
        if e[0] == 'and': return ev(e[1]) and ev(e[2])
        if e[0] == 'or': return ev(e[1]) or ev(e[2])
    n = max(int(x) for x in re.findall(r'state_next_(\d+)_sig', text)) + 1
    ots = sorted({int(x) for x in re.findall(r'in_optimal_transition_set_(\d+)_sig', text)})
    print('active            :', sorted(active))
    print('optimal transition:', [t for t in ots if val('in_optimal_transition_set_%d_sig' % t)])
    print('exit set          :', [s for s in range(n) if ('in_exit_set_%d_sig' % s) in eqs and val('in_exit_set_%d_sig' % s)])
    print('complete entry set:', [s for s in range(1, n) if val('in_complete_entry_set_%d_sig' % s)])
    nxt = [s for s in range(n) if val('state_next_%d_sig' % s)]
    print('next configuration:', nxt)
    return nxt

if __name__ == '__main__':
    main()
