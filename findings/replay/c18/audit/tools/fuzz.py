#!/usr/bin/env python3
"""fuzz.py <transform> <outdir> <seed0> <count>  -- random documents, compare each"""
import sys, os, random
sys.path.insert(0, os.path.dirname(os.path.abspath(__file__)))
import compare

NOTARGETLESS = os.environ.get("NOTARGETLESS") == "1"
EVENTS = ["e", "f", "g", "e.x", "f.y.z"]
DESCS = ["e", "f", "g", "e.x", "f.y.z", "*", "e.*", "f.", "e f", "f.y"]

class Gen:
    def __init__(self, rnd):
        self.r = rnd; self.cnt = 0; self.nodes = []
    def new_id(self):
        self.cnt += 1; return "s%d" % self.cnt
    def build(self, depth, kind):
        """returns dict(kind,id,children)"""
        node = {"kind": kind, "id": self.new_id(), "kids": [], "parent": None}
        self.nodes.append(node)
        if kind == "final": return node
        if kind == "parallel":
            nk = self.r.randint(2, 3)
        elif depth >= 3 or self.r.random() < 0.35:
            nk = 0
        else:
            nk = self.r.randint(1, 3)
        for i in range(nk):
            if kind == "parallel":
                ck = self.r.choice(["state", "state", "parallel"]) if depth < 2 else "state"
            else:
                ck = self.r.choice(["state", "state", "state", "parallel", "final"]) if depth < 3 else self.r.choice(["state", "final"])
            c = self.build(depth + 1, ck)
            c["parent"] = node
            node["kids"].append(c)
        return node

    def anc(self, n):
        r = []
        while n["parent"] is not None:
            n = n["parent"]; r.append(n)
        return r
    def desc(self, n):
        r = []
        for c in n["kids"]:
            r.append(c); r += self.desc(c)
        return r

    def legal_targets(self):
        r = self.r
        cand = [n for n in self.nodes if n["kind"] != "scxml"]
        if r.random() < 0.25:
            # multi target inside a parallel
            pars = [n for n in self.nodes if n["kind"] == "parallel"]
            if pars:
                p = r.choice(pars)
                regs = r.sample(p["kids"], r.randint(2, len(p["kids"])))
                return [r.choice([g] + self.desc(g))["id"] for g in regs]
        return [r.choice(cand)["id"]]

    def emit(self, n, ind):
        r = self.r
        pad = "  " * ind
        attrs = ""
        if n["kind"] == "scxml":
            s = pad + '<scxml xmlns="http://www.w3.org/2005/07/scxml" version="1.0"'
            if n["kids"] and r.random() < 0.3:
                s += ' initial="%s"' % r.choice(n["kids"])["id"]
            s += ">\n"
        else:
            s = pad + '<%s id="%s"' % (n["kind"], n["id"])
            if n["kind"] == "state" and n["kids"] and r.random() < 0.4:
                s += ' initial="%s"' % r.choice(n["kids"])["id"]
            s += ">\n"
        if n["kind"] in ("state", "parallel"):
            for i in range(r.choice([0, 0, 1, 1, 2, 3])):
                t = pad + "  <transition"
                if r.random() < 0.75:
                    t += ' event="%s"' % r.choice(DESCS)
                if r.random() < 0.2:
                    t += ' cond="In(\'%s\')"' % r.choice(self.nodes[1:])["id"]
                if NOTARGETLESS or r.random() < 0.85:
                    t += ' target="%s"' % " ".join(self.legal_targets())
                if r.random() < 0.25:
                    t += ' type="internal"'
                t += "/>\n"
                s += t
        for c in n["kids"]:
            s += self.emit(c, ind + 1)
        s += pad + "</%s>\n" % n["kind"]
        return s

def make(seed):
    rnd = random.Random(seed)
    g = Gen(rnd)
    root = {"kind": "scxml", "id": "root", "kids": [], "parent": None}
    g.nodes.append(root)
    for i in range(rnd.randint(1, 3)):
        c = g.build(1, rnd.choice(["state", "state", "parallel", "final"]) if i else rnd.choice(["state", "parallel"]))
        c["parent"] = root; root["kids"].append(c)
    return g.emit(root, 0)

if __name__ == "__main__":
    transform, outdir, seed0, count = sys.argv[1], sys.argv[2], int(sys.argv[3]), int(sys.argv[4])
    os.makedirs(outdir, exist_ok=True)
    bad = 0
    for seed in range(seed0, seed0 + count):
        p = os.path.join(outdir, "f%d.scxml" % seed)
        open(p, "w").write(make(seed))
        try:
            res = compare.compare(transform, p, maxshow=2)
        except Exception as ex:
            print("seed", seed, "EXC", repr(ex)); continue
        if res is None: continue
        total, mism = res
        if mism:
            bad += 1
            print("seed %d: %d/%d mismatches" % (seed, len(mism), total))
        else:
            os.remove(p)
            try: os.remove(p + ".vhdl")
            except OSError: pass
    print("docs with mismatches:", bad)
