#!/usr/bin/env python3
"""compare.py <transform-binary> <doc.scxml> [-v]
Enumerates every legal configuration x (spontaneous step + every event) x every
valuation of the condition inputs, and compares the next configuration of the
emitted VHDL equations with the reference step.  Prints mismatches; exit 1 if any."""
import sys, os, subprocess, itertools, tempfile
sys.path.insert(0, os.path.dirname(os.path.abspath(__file__)))
import vhdleval, scxmlref

def gen(transform, doc, out):
    r = subprocess.run([transform, "-tvhdl", "-i", doc, "-o", out], stdout=subprocess.PIPE, stderr=subprocess.STDOUT)
    return r.returncode == 0 and os.path.exists(out)

def compare(transform, docpath, verbose=False, maxshow=5, vhdl=None):
    out = vhdl or (docpath + ".vhdl")
    if not gen(transform, docpath, out):
        print("transform failed for", docpath); return None
    eqs = vhdleval.load(out)
    d = scxmlref.Doc(docpath)
    n = len(d.states)
    condk = [k for k, (t, h) in enumerate(d.trans) if t.get("cond") is not None]
    mism = []
    total = 0
    for cfg in d.legal_configs():
        for ev in [None] + d.events():
            for val in itertools.product((0, 1), repeat=len(condk)):
                conds = dict(zip(condk, val))
                ref, taken = d.step(cfg, ev, conds)
                got, env, stable = vhdleval.step(eqs, n, cfg, ev, conds=conds)
                total += 1
                got = set(got) | {0}; refn = set(ref) | {0}
                if not stable or got != refn:
                    vt = [k for k in range(len(d.trans)) if env.get("in_optimal_transition_set_%d_sig" % k)]
                    mism.append((cfg, ev, conds, refn, got, taken, vt, stable))
    # the step out of reset: nothing active, in_complete_entry_set_0_sig = '1'
    got, env, stable = vhdleval.step(eqs, n, set(), None, conds={k: 0 for k in condk}, after_reset=True)
    total += 1
    ref = d.initial_config()
    if not stable or (set(got) | {0}) != ref:
        mism.append((set(), "<reset>", {}, ref, set(got) | {0}, [], [], stable))
    if verbose or mism:
        for (cfg, ev, conds, ref, got, taken, vt, stable) in mism[:maxshow]:
            print("MISMATCH config=%s event=%s conds=%s\n   reference next=%s taken=%s\n   vhdl      next=%s taken=%s%s" % (
                d.names(cfg), ev, conds, d.names(ref), taken, d.names(got), vt, "" if stable else " (UNSTABLE)"))
    return total, mism

if __name__ == "__main__":
    res = compare(sys.argv[1], sys.argv[2], "-v" in sys.argv, maxshow=20)
    if res is None: sys.exit(2)
    total, mism = res
    print("%d situations, %d mismatches" % (total, len(mism)))
    sys.exit(1 if mism else 0)
