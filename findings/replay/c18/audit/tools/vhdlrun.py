#!/usr/bin/env python3
"""
vhdlrun.py <uscxml-transform> <drive-binary> <doc.scxml> [event ...]

Drives the combinational next-state equations of the generated VHDL
(micro_stepper) through: the step out of reset, spontaneous steps until no
transition is selected, then for every event one step with that event's signal
set followed by spontaneous steps.  The same event sequence is given to the
library's interpreter (drive binary).  The stable configurations are compared.
Exit status 1 when they differ or when the VHDL equations never reach a
stable configuration, 0 otherwise.
"""
import sys, os, subprocess, re
sys.path.insert(0, os.path.dirname(os.path.abspath(__file__)))
import vhdleval, scxmlref

MAXSPONT = 6

def main():
    transform, drive, doc = sys.argv[1:4]
    events = sys.argv[4:]
    out = doc + ".vhdl"
    subprocess.run([transform, "-tvhdl", "-i", doc, "-o", out], stdout=subprocess.DEVNULL, stderr=subprocess.DEVNULL)
    eqs = vhdleval.load(out)
    d = scxmlref.Doc(doc)          # only used for the state numbering / names
    n = len(d.states)
    ntrans = len(d.trans)

    def taken(env):
        return [k for k in range(ntrans) if env.get("in_optimal_transition_set_%d_sig" % k)]
    def proper(cfg):
        return sorted(d.states[i].get("id") for i in cfg
                      if scxmlref.ln(d.states[i]) in ("state", "parallel", "final") and d.states[i].get("id"))

    bad = False
    vhdl_stable = []
    print("== generated VHDL (micro_stepper equations) ==")
    cfg, env, st = vhdleval.step(eqs, n, set(), None, after_reset=True)
    print("reset step            -> %s" % d.names(cfg))
    def settle(cfg, label):
        nonlocal bad
        for i in range(MAXSPONT):
            nxt, env, st = vhdleval.step(eqs, n, cfg, None)
            tk = taken(env)
            if not st:
                print("%s: equations do not settle" % label); bad = True; return nxt
            if not tk:
                return cfg
            ex = [d.name(i) for i in range(n) if env.get("in_exit_set_%d_sig" % i)]
            en = [d.name(i) for i in range(n) if env.get("in_entry_set_%d_sig" % i)]
            print("%-8s spontaneous step: transitions %s exit %s entry %s -> %s" % (label, tk, ex, en, d.names(nxt)))
            cfg = nxt
        print("%-8s NO stable configuration: a transition is selected in each of %d consecutive spontaneous steps" % (label, MAXSPONT))
        bad = True
        return cfg
    cfg = settle(cfg, "init")
    vhdl_stable.append(proper(cfg))
    for e in events:
        nxt, env, st = vhdleval.step(eqs, n, cfg, e)
        print("%-8s event step: transitions %s -> %s" % (e, taken(env), d.names(nxt)))
        cfg = settle(nxt, e)
        vhdl_stable.append(proper(cfg))

    print("== interpreter ==")
    r = subprocess.run([drive, doc] + events, stdout=subprocess.PIPE, stderr=subprocess.DEVNULL, universal_newlines=True)
    int_stable = []
    for line in r.stdout.splitlines():
        print(line)
        m = re.match(r"^(\S+) stable \{(.*)\}$", line)
        if m:
            int_stable.append(sorted(x for x in m.group(2).split(",") if x))
    print("== comparison of stable configurations (proper states) ==")
    labels = ["init"] + events
    for i, lab in enumerate(labels):
        a = vhdl_stable[i] if i < len(vhdl_stable) else None
        b = int_stable[i] if i < len(int_stable) else None
        flag = "ok" if a == b else "DIFFERENT"
        if a != b: bad = True
        print("after %-6s vhdl=%s interpreter=%s  %s" % (lab, a, b, flag))
    sys.exit(1 if bad else 0)

main()
