#!/usr/bin/env python3
"""check.py <uscxml-transform> <drive> <doc.scxml>
Situation: configuration {p,c}, event f pending, spontaneous_en = '1'
(an event signal is asserted by event_handler on a falling clock edge whatever
the value of spontaneous_en; spontaneous_handler sets spontaneous_en to '1' on
the rising edge after event_dequeued)."""
import sys, os, subprocess
sys.path.insert(0, os.path.dirname(os.path.abspath(__file__)))
import vhdleval, scxmlref
transform, drive, doc = sys.argv[1:4]
out = doc + ".vhdl"
subprocess.run([transform, "-tvhdl", "-i", doc, "-o", out], stdout=subprocess.DEVNULL, stderr=subprocess.DEVNULL)
eqs = vhdleval.load(out)
d = scxmlref.Doc(doc)
n = len(d.states)
cfg = {0, d.n(d.byid["p"]), d.n(d.byid["c"])}
bad = False

def solutions():
    """all consistent solutions: fix the in_optimal_transition_set_* signals to every
    combination, derive the remaining (acyclic) signals, keep the combinations that
    the transition equations reproduce"""
    import itertools
    inputs = {"state_active_%d_sig" % i: (1 if i in cfg else 0) for i in range(n)}
    inputs[vhdleval.event_signal(eqs, "f")] = 1
    inputs[vhdleval.event_signal(eqs, "e")] = 0
    inputs["spontaneous_en"] = 1
    inputs["in_complete_entry_set_0_sig"] = 0
    tk = ["in_optimal_transition_set_%d_sig" % k for k in range(len(d.trans))]
    res = []
    for val in itertools.product((0, 1), repeat=len(tk)):
        fixed = dict(zip(tk, val))
        rest = {s: e for s, e in eqs.items() if s not in fixed}
        inp = dict(inputs); inp.update(fixed)
        env, st = vhdleval.solve(rest, inp)
        if st and all(vhdleval.ev(eqs[s], env) == fixed[s] for s in tk):
            res.append((set(i for i in range(n) if env["state_next_%d_sig" % i]), [k for k, v in enumerate(val) if v]))
    return res

print("situation: configuration %s, event f pending, spontaneous_en='1'" % d.names(cfg))
nxt, env, stable = vhdleval.step(eqs, n, cfg, "f", spontaneous=1)
print("delta-cycle evaluation (all concurrent assignments re-evaluated per delta, 1000 deltas): %s" %
      ("settles at " + d.names(nxt) if stable else "DOES NOT SETTLE (in_optimal_transition_set_1/2 and spontaneous_active keep toggling)"))
if not stable: bad = True
sols = solutions()
for nxt2, t in sols:
    print("consistent solution of the equations: transitions %s, next configuration %s" % (t, d.names(nxt2)))
if len(sols) != 1:
    print("-> %d solutions: the equations do not define a next-state function for this situation" % len(sols))
    bad = True
r = subprocess.run([drive, doc, "e", "f"], stdout=subprocess.PIPE, stderr=subprocess.DEVNULL, universal_newlines=True)
print("interpreter, same document, events e, f from {a} (e enters {p,c}; the eventless transition of p has priority over any queued event):")
for l in r.stdout.splitlines():
    if not l.startswith("[Info]"): print("   " + l)
sys.exit(1 if bad else 0)
