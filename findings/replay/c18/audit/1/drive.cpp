// drive <doc.scxml> [event ...]
// Runs the document with the library's interpreter; prints the configuration after
// every microstep: "init", then for every given event the microsteps it causes.
#include "uscxml/uscxml.h"
#include "uscxml/util/DOM.h"
#include <iostream>
#include <set>
using namespace uscxml;

static std::string conf(Interpreter& i) {
	std::set<std::string> ids;
	for (auto s : i.getConfiguration()) {
		if (HAS_ATTR(s, X("id"))) ids.insert(ATTR(s, X("id")));
	}
	std::string r = "{";
	std::string sep;
	for (auto& id : ids) { r += sep + id; sep = ","; }
	return r + "}";
}

static bool settle(Interpreter& i, const std::string& label) {
	int guard = 0;
	for (;;) {
		InterpreterState st = i.step(0);
		if (st == USCXML_MICROSTEPPED || st == USCXML_INITIALIZED)
			std::cout << label << " microstep -> " << conf(i) << std::endl;
		if (st == USCXML_FINISHED) { std::cout << label << " finished" << std::endl; return false; }
		if (st == USCXML_IDLE) return true;
		if (++guard > 50) { std::cout << label << " no stable configuration after 50 steps" << std::endl; return false; }
	}
}

int main(int argc, char** argv) {
	Interpreter i = Interpreter::fromURL(argv[1]);
	if (!settle(i, "init")) return 0;
	std::cout << "init stable " << conf(i) << std::endl;
	for (int a = 2; a < argc; a++) {
		Event e(argv[a], Event::EXTERNAL);
		i.receive(e);
		if (!settle(i, std::string(argv[a]))) return 0;
		std::cout << argv[a] << " stable " << conf(i) << std::endl;
	}
	return 0;
}
