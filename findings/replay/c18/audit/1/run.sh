#!/bin/bash
# usage: run.sh <build dir>      exits 1 when the defect shows, 0 otherwise
B=$(cd "$1" && pwd) || exit 2
HERE=$(cd "$(dirname "$0")" && pwd)
SRC=$(sed -n 's/^CMAKE_HOME_DIRECTORY:INTERNAL=//p' "$B/CMakeCache.txt")
TMP=$(mktemp -d)
trap 'rm -rf "$TMP"' EXIT
g++ -w -std=gnu++11 -I"$SRC/src" -I"$B" -I"$SRC/contrib/src" -DXERCESC_NS=xercesc_3_2 \
    "$HERE/drive.cpp" -o "$TMP/drive" -L"$B/lib" -luscxml -lxerces-c -Wl,-rpath,"$B/lib" || exit 2
cp "$HERE/doc.scxml" "$TMP/doc.scxml"
python3 "$HERE/vhdlrun.py" "$B/bin/uscxml-transform" "$TMP/drive" "$TMP/doc.scxml" e f 2>&1 | grep -v '^\[Info\]'
exit ${PIPESTATUS[0]}
