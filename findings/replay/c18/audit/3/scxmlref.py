#!/usr/bin/env python3
"""
Reference SCXML micro-step (W3C algorithm) on documents without history and
datamodel, with the transpilers' transition selection: transitions are
considered in post-fix order, a transition is taken if it is enabled and does
not conflict (ChartToC::prepare relation) with one already taken.
State numbering = ChartToC document order (<initial> elements moved first).
"""
import xml.etree.ElementTree as ET
import itertools

NS = "{http://www.w3.org/2005/07/scxml}"
STATE_TAGS = ("scxml", "state", "parallel", "final", "initial", "history")

def ln(e):
    return e.tag.replace(NS, "")

class Doc:
    def __init__(self, path):
        self.tree = ET.parse(path)
        self.root = self.tree.getroot()
        self.parent = {}
        self.states = []
        self._number(self.root, None)
        self.idx = {id(s): i for i, s in enumerate(self.states)}
        self.byid = {s.get("id"): s for s in self.states if s.get("id")}
        # transitions in post-fix order
        self.trans = []
        self._post(self.root)

    def kids(self, s, proper=True):
        ks = [c for c in s if ln(c) in STATE_TAGS]
        # ChartToC::resortStates: initial first, then histories
        ini = [c for c in ks if ln(c) == "initial"]
        his = [c for c in ks if ln(c) == "history"]
        rest = [c for c in ks if ln(c) not in ("initial", "history")]
        if proper:
            return rest
        return ini + his + rest

    def _number(self, s, par):
        self.parent[id(s)] = par
        self.states.append(s)
        for c in self.kids(s, False):
            self._number(c, s)

    def _post(self, s):
        for c in self.kids(s, False):
            self._post(c)
        for t in s:
            if ln(t) == "transition":
                self.trans.append((t, s))

    def n(self, s): return self.idx[id(s)]
    def par(self, s): return self.parent[id(s)]
    def is_parallel(self, s): return ln(s) == "parallel"
    def is_compound(self, s): return ln(s) in ("state", "scxml") and len(self.kids(s)) > 0
    def is_atomic(self, s): return ln(s) == "final" or (ln(s) == "state" and not self.kids(s))
    def ancestors(self, s):
        r = []
        p = self.par(s)
        while p is not None:
            r.append(p); p = self.par(p)
        return r
    def is_desc(self, s, a):
        return any(x is a for x in self.ancestors(s))
    def descendants(self, s):
        r = []
        for c in self.kids(s):
            r.append(c); r += self.descendants(c)
        return r

    def source(self, t, holder):
        return self.par(holder) if ln(holder) == "initial" else holder
    def targets(self, t):
        return [self.byid[x] for x in (t.get("target") or "").split() if x in self.byid]

    def domain(self, t, holder):
        tg = self.targets(t)
        if not tg: return None
        src = self.source(t, holder)
        if (t.get("type") == "internal") and self.is_compound(src) and all(self.is_desc(x, src) for x in tg):
            return src
        lst = [src] + tg
        for a in self.ancestors(src):
            if not self.is_compound(a): continue
            if all(self.is_desc(x, a) for x in lst):
                return a
        return self.root

    def initial_states(self, s):
        if self.is_parallel(s): return self.kids(s)
        if not self.is_compound(s): return []
        if s.get("initial"):
            return [self.byid[x] for x in s.get("initial").split() if x in self.byid]
        ini = [c for c in s if ln(c) == "initial"]
        if ini:
            tr = [t for t in ini[0] if ln(t) == "transition"]
            return self.targets(tr[0]) if tr else []
        return self.kids(s)[:1]

    # ---- entry set (W3C) -------------------------------------------------
    def add_desc(self, s, enter):
        if not any(x is s for x in enter): enter.append(s)
        if self.is_compound(s):
            for i in self.initial_states(s):
                self.add_desc(i, enter)
            for i in self.initial_states(s):
                self.add_anc(i, s, enter)
        elif self.is_parallel(s):
            for c in self.kids(s):
                if not any((x is c) or self.is_desc(x, c) for x in enter):
                    self.add_desc(c, enter)

    def add_anc(self, s, anc, enter):
        for a in self.ancestors(s):
            if a is anc: break
            if not any(x is a for x in enter): enter.append(a)
            if self.is_parallel(a):
                for c in self.kids(a):
                    if not any((x is c) or self.is_desc(x, c) for x in enter):
                        self.add_desc(c, enter)

    def conflicts(self, a, b):
        (t1, h1), (t2, h2) = a, b
        s1, s2 = self.source(t1, h1), self.source(t2, h2)
        if s1 is s2 or self.is_desc(s1, s2) or self.is_desc(s2, s1): return True
        e1 = self.static_exit(t1, h1); e2 = self.static_exit(t2, h2)
        return any(x is y for x in e1 for y in e2)

    def static_exit(self, t, h):
        d = self.domain(t, h)
        return [] if d is None else self.descendants(d)

    def matches(self, t, event):
        ev = t.get("event")
        if ev is None: return event is None
        if event is None: return False
        for d in ev.split():
            if d == "*": return True
            if d.endswith(".*"): d = d[:-2]
            elif d.endswith("."): d = d[:-1]
            if event == d or event.startswith(d + "."): return True
        return False

    def step(self, config, event, conds=None):
        """config: set of state numbers; returns (next config, taken postfix indices)"""
        conds = conds or {}
        taken = []
        for k, (t, h) in enumerate(self.trans):
            if ln(h) == "initial": continue
            if self.n(h) not in config: continue
            if not self.matches(t, event): continue
            if t.get("cond") is not None and not conds.get(k, 0): continue
            if any(self.conflicts((t, h), self.trans[j]) for j in taken): continue
            taken.append(k)
        exits = set()
        enter = []
        for k in taken:
            t, h = self.trans[k]
            d = self.domain(t, h)
            if d is None: continue
            for x in self.descendants(d):
                if self.n(x) in config: exits.add(self.n(x))
        for k in taken:
            t, h = self.trans[k]
            d = self.domain(t, h)
            if d is None: continue
            for x in self.targets(t):
                self.add_desc(x, enter)
            for x in self.targets(t):
                self.add_anc(x, d, enter)
        nxt = (set(config) - exits) | set(self.n(x) for x in enter)
        return nxt, taken

    def initial_config(self):
        enter = []
        for i in self.initial_states(self.root):
            self.add_desc(i, enter)
        for i in self.initial_states(self.root):
            self.add_anc(i, self.root, enter)
        return set([0]) | set(self.n(x) for x in enter)

    def legal_configs(self):
        def rec(s):
            me = self.n(s)
            if self.is_parallel(s):
                parts = [rec(c) for c in self.kids(s)]
                res = []
                for combo in itertools.product(*parts):
                    u = {me}
                    for c in combo: u |= c
                    res.append(u)
                return res
            if self.is_compound(s):
                res = []
                for c in self.kids(s):
                    for u in rec(c):
                        res.append({me} | u)
                return res
            return [{me}]
        return rec(self.root)

    def events(self):
        evs = set()
        for e in self.root.iter():
            if ln(e) in ("transition", "raise", "send") and e.get("event"):
                for d in e.get("event").split():
                    if d.endswith("*"): d = d[:-1]
                    if d.endswith("."): d = d[:-1]
                    if d: evs.add(d)
        return sorted(evs)

    def name(self, n):
        s = self.states[n]
        return s.get("id") or ("<%s>#%d" % (ln(s), n))
    def names(self, cfg):
        return "{" + ",".join(self.name(i) for i in sorted(cfg)) + "}"
