#!/bin/bash
# usage: run.sh <build dir>      exits 1 when the defect shows, 0 otherwise
B=$(cd "$1" && pwd) || exit 2
HERE=$(cd "$(dirname "$0")" && pwd)
SRC=$(sed -n 's/^CMAKE_HOME_DIRECTORY:INTERNAL=//p' "$B/CMakeCache.txt")
TMP=$(mktemp -d)
trap 'rm -rf "$TMP"' EXIT
g++ -w -std=gnu++11 -I"$SRC/src" -I"$B" -I"$SRC/contrib/src" -DXERCESC_NS=xercesc_3_2 \
    "$HERE/drive.cpp" -o "$TMP/drive" -L"$B/lib" -luscxml -lxerces-c -Wl,-rpath,"$B/lib" || exit 2
cp "$HERE/doc.scxml" "$HERE/doc2.scxml" "$TMP/"
rc=0
echo "--- part 1: two different event names share one event signal"
python3 "$HERE/vhdlrun.py" "$B/bin/uscxml-transform" "$TMP/drive" "$TMP/doc.scxml" motors.top 2>&1 | grep -v '^\[Info\]'
[ ${PIPESTATUS[0]} -ne 0 ] && rc=1
echo "event signal declarations in the generated micro_stepper:"
grep -n 'signal event_.*_sig' "$TMP/doc.scxml.vhdl" | grep -v 'event_dequeued\|event_consumed' | cat -v
echo "--- part 2: an event name with two dots gives an identifier with a control character"
"$B/bin/uscxml-transform" -tvhdl -i "$TMP/doc2.scxml" -o "$TMP/doc2.vhdl" >/dev/null 2>&1
grep -n 'signal event_.*_sig' "$TMP/doc2.vhdl" | grep -v 'event_dequeued\|event_consumed' | cat -v
if LC_ALL=C grep -q 'event_[A-Za-z0-9_]*[^A-Za-z0-9_ ][A-Za-z0-9_]*_sig' "$TMP/doc2.vhdl"; then
  echo "-> identifier is not a VHDL identifier"; rc=1
fi
exit $rc
