#!/bin/bash
# usage: fuzz.sh from to
B=/tmp/wta/C18/_build/bin
S=/tmp/wta/C18/OUT/scratch
for i in $(seq $1 $2); do
  python3 gen.py $i > $S/f$i.scxml
  $B/uscxml-transform -tvhdl -i $S/f$i.scxml -o $S/f$i.vhdl >/dev/null 2>&1 || { echo "seed $i transform failed"; continue; }
  if ! python3 ref.py $S/f$i.scxml $S/f$i.vhdl > $S/f$i.log 2>&1; then echo "seed $i: $(tail -1 $S/f$i.log)"; else rm -f $S/f$i.scxml $S/f$i.vhdl $S/f$i.log; fi
done
