#!/usr/bin/env python3
"""
Evaluate the combinational next-state equations of the micro_stepper
entity emitted by `uscxml-transform -tvhdl`.

Only the concurrent signal assignments of the micro_stepper architecture
are used (in_optimal_transition_set_*, spontaneous_active, in_exit_set_*,
in_complete_entry_set(_up)_*, in_entry_set_*, state_next_*).  The inputs
are: state_active_<n>_sig, event_<name>_sig, spontaneous_en,
transition_condition_fulfilled_<k>_i, and in_complete_entry_set_0_sig
(a register: '1' only directly after reset).
"""
import re, sys

TOK = re.compile(r"\s*(<=|\(|\)|'0'|'1'|[^\s()<=';]+)")

def tokenize(s):
    out = []
    pos = 0
    s = s.strip()
    while pos < len(s):
        m = TOK.match(s, pos)
        if not m:
            raise ValueError("cannot tokenize at: " + s[pos:pos+40])
        out.append(m.group(1))
        pos = m.end()
    return out

class P:
    def __init__(self, toks):
        self.t = toks; self.i = 0
    def peek(self):
        return self.t[self.i] if self.i < len(self.t) else None
    def next(self):
        v = self.t[self.i]; self.i += 1; return v
    def expr(self):
        l = self.unary()
        while self.peek() in ('and', 'or'):
            op = self.next()
            r = self.unary()
            l = (op, l, r)
        return l
    def unary(self):
        if self.peek() == 'not':
            self.next()
            return ('not', self.unary())
        if self.peek() == '(':
            self.next()
            e = self.expr()
            assert self.next() == ')'
            return e
        v = self.next()
        if v == "'0'": return ('c', 0)
        if v == "'1'": return ('c', 1)
        return ('v', v)

def ev(e, env):
    k = e[0]
    if k == 'c': return e[1]
    if k == 'v': return env.get(e[1], 0)
    if k == 'not': return 1 - ev(e[1], env)
    if k == 'and': return ev(e[1], env) & ev(e[2], env)
    if k == 'or': return ev(e[1], env) | ev(e[2], env)
    raise ValueError(k)

def load(path):
    """returns dict signal -> expression for the micro_stepper combinational part"""
    txt = open(path).read()
    a = txt.index("architecture behavioral of micro_stepper is")
    a = txt.index("-- optimal transition set selection", a)
    b = txt.index("-- END FSM Logic", a)
    body = txt[a:b]
    # strip comments
    body = re.sub(r"--[^\n]*", "", body)
    # cut at "end behavioral"
    body = body[:body.index("end behavioral")]
    eqs = {}
    for stmt in body.split(";"):
        stmt = stmt.strip()
        if not stmt:
            continue
        toks = tokenize(stmt)
        assert toks[1] == '<=', toks[:3]
        p = P(toks[2:])
        e = p.expr()
        assert p.peek() is None, (toks, p.i)
        if toks[0] in eqs:
            raise ValueError("signal driven twice: " + toks[0])
        eqs[toks[0]] = e
    return eqs

def solve(eqs, inputs, maxiter=1000):
    """Evaluate like a delta-cycle simulator: start every driven signal at 0,
    re-evaluate all until stable.  Returns (env, stable)."""
    env = dict(inputs)
    for s in eqs:
        env[s] = 0
    for it in range(maxiter):
        new = {s: ev(e, env) for s, e in eqs.items()}
        changed = False
        for s, v in new.items():
            if env[s] != v:
                env[s] = v; changed = True
        if not changed:
            return env, True
    return env, False

def step(eqs, nstates, active, event=None, spontaneous=None, conds=None, after_reset=False):
    """active: iterable of state numbers; event: escaped event name or None.
    spontaneous: value of spontaneous_en (default: 1 iff event is None)."""
    inputs = {}
    for i in range(nstates):
        inputs["state_active_%d_sig" % i] = 1 if i in active else 0
    for s in set(v for e in eqs.values() for v in _vars(e)):
        if s.startswith("event_") and s.endswith("_sig") and s not in eqs:
            inputs[s] = 0
    if event is not None:
        inputs[event_signal(eqs, event)] = 1
    if spontaneous is None:
        spontaneous = 1 if event is None else 0
    inputs["spontaneous_en"] = spontaneous
    inputs["in_complete_entry_set_0_sig"] = 1 if after_reset else 0
    for k, v in (conds or {}).items():
        inputs["transition_condition_fulfilled_%d_i" % k] = v
    env, stable = solve(eqs, inputs)
    nxt = set(i for i in range(nstates) if env.get("state_next_%d_sig" % i, 0))
    return nxt, env, stable

def event_signal(eqs, event):
    """signal name the generator uses for an event name (escapeMacro: the
    alphanumerics, then '_' and ONE byte derived from a hash of the rest)"""
    alnum = "".join(c for c in event if c.isalnum() or c == "_")
    special = any(not (c.isalnum() or c == "_") for c in event)
    names = set(v for e in eqs.values() for v in _vars(e))
    for s in sorted(names):
        if not (s.startswith("event_") and s.endswith("_sig")): continue
        core = s[len("event_"):-len("_sig")]
        if not special and core == alnum: return s
        if special and len(core) == len(alnum) + 2 and core.startswith(alnum + "_"): return s
    return "event_%s_sig" % alnum

def _vars(e):
    if e[0] == 'v': return [e[1]]
    if e[0] == 'c': return []
    r = []
    for x in e[1:]:
        r += _vars(x)
    return r

if __name__ == "__main__":
    eqs = load(sys.argv[1])
    for k in eqs: print(k)
