#!/usr/bin/env python3
"""random documents in the VHDL fragment"""
import random, sys

def gen(seed, maxdepth=3, maxstates=14):
    rnd = random.Random(seed)
    maxdepth = rnd.choice([2,3,4,5]); maxstates = rnd.choice([8,14,20])
    ids = []
    counter = [0]
    def newid():
        counter[0] += 1
        return "s%d" % counter[0]
    # build tree
    def mk(depth, allow_final):
        if counter[0] >= maxstates or depth >= maxdepth:
            k = "atomic"
        else:
            k = rnd.choice(["atomic", "atomic", "compound", "compound", "parallel", "parallel"])
        node = {"id": newid(), "kind": k, "children": [], "trans": []}
        ids.append(node)
        if k == "compound":
            for _ in range(rnd.randint(1, 3)):
                node["children"].append(mk(depth + 1, True))
            if rnd.random() < 0.3:
                f = {"id": newid(), "kind": "final", "children": [], "trans": []}
                ids.append(f)
                node["children"].insert(rnd.randint(0, len(node["children"])), f)
            if rnd.random() < 0.4:
                node["initial"] = rnd.choice(node["children"])["id"]
        elif k == "parallel":
            for _ in range(rnd.randint(1, 3)):
                c = mk(depth + 1, False)
                node["children"].append(c)
        return node
    top = [mk(0, True) for _ in range(rnd.randint(1, 3))]
    if rnd.random() < 0.4:
        f = {"id": newid(), "kind": "final", "children": [], "trans": []}
        ids.append(f); top.insert(rnd.randint(1, len(top)), f)
    events = ["a", "b", "a.b", "c"]
    descs = ["a", "b", "a.b", "c", "*", "a.*", "a b", "c a.b"]
    allids = [n["id"] for n in ids]
    byid = {n["id"]: n for n in ids}
    parent = {}
    def setp(n, p):
        parent[n["id"]] = p
        for c in n["children"]: setp(c, n)
    for t in top: setp(t, None)
    def ancs(i):
        r = []
        p = parent[i]
        while p is not None:
            r.append(p["id"]); p = parent[p["id"]]
        return r
    def legal_multi(tg):
        # pairwise: LCA must be parallel and neither ancestor of other
        for x in tg:
            for y in tg:
                if x == y: continue
                ax, ay = [x] + ancs(x), [y] + ancs(y)
                if x in ay or y in ax: return False
                common = [a for a in ax if a in ay]
                if not common or byid[common[0]]["kind"] != "parallel": return False
        return True
    ncond = 0
    for n in ids:
        if n["kind"] == "final": continue
        for _ in range(rnd.choice([0, 1, 1, 2, 3])):
            t = {}
            r = rnd.random()
            if r < 0.7:
                t["event"] = rnd.choice(descs)
            if rnd.random() < 0.85:
                tg = [rnd.choice(allids)]
                for rep in range(3):
                  if rnd.random() < 0.35:
                    for _ in range(20):
                        cand = tg + [rnd.choice(allids)]
                        if len(set(cand)) == len(cand) and legal_multi(cand):
                            tg = cand; break
                t["target"] = " ".join(tg)
            if rnd.random() < 0.25:
                t["type"] = "internal"
            if rnd.random() < 0.25 and ncond < 4:
                t["cond"] = "true"; ncond += 1
            if "event" not in t and "target" not in t:
                t["cond"] = "true"
            n["trans"].append(t)
    rootinit = ''
    if rnd.random() < 0.4:
        rootinit = ' initial="%s"' % rnd.choice(top)["id"]
    out = ['<scxml xmlns="http://www.w3.org/2005/07/scxml" version="1.0" datamodel="null"%s>' % rootinit]
    def emit(n, ind):
        tag = {"atomic": "state", "compound": "state", "parallel": "parallel", "final": "final"}[n["kind"]]
        a = ' id="%s"' % n["id"]
        if "initial" in n: a += ' initial="%s"' % n["initial"]
        out.append("%s<%s%s>" % (ind, tag, a))
        # transitions may come before or after children
        for t in n["trans"]:
            out.append('%s  <transition%s/>' % (ind, "".join(' %s="%s"' % kv for kv in t.items())))
        for c in n["children"]:
            emit(c, ind + "  ")
        out.append("%s</%s>" % (ind, tag))
    for t in top: emit(t, "  ")
    out.append("</scxml>")
    return "\n".join(out) + "\n"

if __name__ == "__main__":
    sys.stdout.write(gen(int(sys.argv[1])))
