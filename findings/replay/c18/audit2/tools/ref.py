#!/usr/bin/env python3
"""
Reference step function for the VHDL fragment (no history, no <initial>, no datamodel),
following the algorithm of the generated C (ChartToC.cpp: SELECT_TRANSITIONS /
ESTABLISH_ENTRY_SET) with the transpilers' conflict relation, plus a differential
driver against the equations of the emitted micro_stepper.
"""
import sys, os, re, itertools, subprocess
import xml.etree.ElementTree as ET
sys.path.insert(0, os.path.dirname(os.path.abspath(__file__)))
import vhdleval

NS = "{http://www.w3.org/2005/07/scxml}"
STATE_TAGS = ("scxml", "state", "parallel", "final")

def ln(e):
    return e.tag.replace(NS, "")

class Model:
    def __init__(self, path):
        self.root = ET.parse(path).getroot()
        self.states = []      # elements in document order
        self.parent = {}
        self.children = {}
        self.idx = {}
        self._walk(self.root, None)
        self.byid = {}
        for i, s in enumerate(self.states):
            if s.get("id") is not None and s.get("id") not in self.byid:
                self.byid[s.get("id")] = i
        # transitions in postfix order of states
        self.trans = []
        self._post(0)
        for k, t in enumerate(self.trans):
            t["k"] = k
            self._prep(t)
        self.events = self._events()

    def _walk(self, e, p):
        i = len(self.states)
        self.states.append(e); self.idx[e] = i
        self.parent[i] = p; self.children[i] = []
        if p is not None: self.children[p].append(i)
        for c in e:
            if ln(c) in ("state", "parallel", "final"):
                self._walk(c, i)

    def _post(self, i):
        for c in self.children[i]:
            self._post(c)
        for c in self.states[i]:
            if ln(c) == "transition":
                self.trans.append({"el": c, "source": i})

    def kind(self, i):
        t = ln(self.states[i])
        if t == "parallel": return "parallel"
        if t == "final": return "final"
        return "compound" if self.children[i] else "atomic"

    def anc(self, i):
        r = []
        while self.parent[i] is not None:
            i = self.parent[i]; r.append(i)
        return r

    def desc(self, i):
        r = []
        for c in self.children[i]:
            r.append(c); r += self.desc(c)
        return r

    def is_desc(self, a, b):  # a proper descendant of b
        return b in self.anc(a)

    def _prep(self, t):
        el = t["el"]
        tg = el.get("target")
        t["targets"] = [self.byid[x] for x in (tg.split() if tg else []) if x in self.byid]
        t["event"] = el.get("event")
        t["cond"] = el.get("cond") is not None
        src = t["source"]
        # domain
        if tg is None or not t["targets"]:
            dom = None
        else:
            dom = None
            if (el.get("type", "external").lower() == "internal" and self.kind(src) == "compound"
                    and all(self.is_desc(x, src) for x in t["targets"])):
                dom = src
            else:
                lst = [src] + t["targets"]
                ancs = self.anc(src)
                for a in ancs:
                    if self.kind(a) != "compound": continue
                    if all(self.is_desc(x, a) for x in lst):
                        dom = a; break
                if dom is None and ancs:
                    dom = ancs[-1]
        t["domain"] = dom
        t["exit"] = set(self.desc(dom)) if dom is not None else set()

    def conflict(self, a, b):
        sa, sb = a["source"], b["source"]
        return (sa == sb or self.is_desc(sa, sb) or self.is_desc(sb, sa) or bool(a["exit"] & b["exit"]))

    def _events(self):
        ev = set()
        for e in self.root.iter():
            if ln(e) in ("raise", "send", "transition") and e.get("event") is not None:
                for d in e.get("event").split():
                    ev.add(d)
        return ev

    def default_child(self, i):
        """as the C back-end (completionBools) for the restricted fragment"""
        init = self.states[i].get("initial")
        if init is not None:
            return [self.byid[x] for x in init.split() if x in self.byid]
        return [self.children[i][0]]

    def legal_configs(self):
        def cfg(i):
            k = self.kind(i)
            if k in ("atomic", "final"): return [frozenset([i])]
            if k == "compound":
                r = []
                for c in self.children[i]:
                    r += [x | {i} for x in cfg(c)]
                return r
            parts = [cfg(c) for c in self.children[i]]
            r = []
            for combo in itertools.product(*parts):
                s = {i}
                for x in combo: s |= x
                r.append(frozenset(s))
            return r
        return cfg(0)

    @staticmethod
    def name_match(desc_attr, ev):
        for d in desc_attr.split():
            if d == "*": return True
            if d.endswith(".*"): d = d[:-2]
            elif d.endswith("."): d = d[:-1]  # tolerated
            if d == ev or ev.startswith(d + "."): return True
        return False

    def step(self, config, event, conds):
        """event None: spontaneous step. conds: dict k -> 0/1. returns (next config, selected)"""
        sel = []
        for t in self.trans:
            if t["source"] not in config: continue
            if any(self.conflict(t, s) for s in sel): continue
            if (t["event"] is None) != (event is None): continue
            if event is not None and not self.name_match(t["event"], event): continue
            if t["cond"] and not conds.get(t["k"], 0): continue
            sel.append(t)
        self.last_exit = self.last_enter = frozenset()
        if not sel:
            return frozenset(config), []
        exit_set = set(); target = set()
        for t in sel:
            exit_set |= t["exit"]; target |= set(t["targets"])
        exit_set &= set(config)
        entry = set(target)
        for i in range(len(self.states)):
            if i in entry: entry |= set(self.anc(i))
        for i in range(len(self.states)):
            if i not in entry: continue
            k = self.kind(i)
            if k == "parallel":
                entry |= set(self.children[i])
            elif k == "compound":
                ch = set(self.children[i])
                if not (entry & ch) and (not (set(config) & ch) or (exit_set & ch)):
                    for d in self.default_child(i):
                        entry.add(d)
                        if d not in ch: entry |= set(self.anc(d))
        nxt = (set(config) - exit_set) | entry
        self.last_exit = frozenset(exit_set)
        self.last_enter = frozenset(entry - (set(config) - exit_set))
        return frozenset(nxt), [t["k"] for t in sel]


def esc(s):
    r = ""
    for ch in s.encode("utf-8"):
        c = chr(ch)
        if ('0' <= c <= '9') or ('a' <= c <= 'y'): r += c
        else: r += "z%02x" % ch
    return r

def vhdl_step(eqs, n, config, event, conds):
    inputs = {}
    for i in range(n):
        inputs["state_active_%d_sig" % i] = 1 if i in config else 0
    for s in set(v for e in eqs.values() for v in vhdleval._vars(e)):
        if s.startswith("event_") and s.endswith("_sig") and s not in eqs:
            inputs[s] = 0
    if event is not None:
        inputs["event_%s_sig" % esc(event)] = 1
    inputs["spontaneous_en"] = 1 if event is None else 0
    inputs["in_complete_entry_set_0_sig"] = 0
    inputs["completed_sig"] = 0
    for k, v in conds.items():
        inputs["transition_condition_fulfilled_%d_i" % k] = v
    env, stable = vhdleval.solve(eqs, inputs)
    nxt = frozenset(i for i in range(n) if env.get("state_next_%d_sig" % i, 0))
    return nxt, env, stable

def compare(scxml, vhdl, verbose=True, maxconds=6):
    m = Model(scxml)
    eqs = vhdleval.load(vhdl)
    # completed_sig is driven in the system mapping, outside the loaded region
    n = len(m.states)
    condk = [t["k"] for t in m.trans if t["cond"]][:maxconds]
    bad = []
    evs = sorted(x for x in m.events if not x.endswith("*") and not x.endswith("."))
    cfgs = m.legal_configs()
    if os.environ.get("SAMPLE"):
        import random
        random.Random(1).shuffle(cfgs); cfgs = cfgs[:int(os.environ["SAMPLE"])]
    for cfg in cfgs:
        if any(m.kind(i) == "final" and m.parent[i] == 0 for i in cfg):
            continue  # completed: the stepper is stalled
        for ev in [None] + evs:
            for vals in itertools.product((0, 1), repeat=len(condk)):
                conds = dict(zip(condk, vals))
                ref, sel = m.step(cfg, ev, conds)
                got, env, stable = vhdl_step(eqs, n, cfg, ev, conds)
                # root: state_next_0 = not completed
                gx = frozenset(i for i in range(n) if env.get("in_exit_set_%d_sig" % i, 0))
                ge = frozenset(i for i in range(n) if env.get("in_entry_set_%d_sig" % i, 0))
                gt = sorted(t["k"] for t in m.trans if env.get("in_optimal_transition_set_%d_sig" % t["k"], 0))
                if gx != m.last_exit or ge != m.last_enter or gt != sorted(sel):
                    bad.append((sorted(cfg), ev, conds, "exit%s enter%s" % (sorted(m.last_exit), sorted(m.last_enter)), "exit%s enter%s sel%s" % (sorted(gx), sorted(ge), gt), stable, sel))
                if (not stable) or got != ref:
                    bad.append((sorted(cfg), ev, conds, sorted(ref), sorted(got), stable, sel))
    # the step out of reset
    entry = {0}
    for i in range(n):
        if i not in entry: continue
        k = m.kind(i)
        if k == "parallel": entry |= set(m.children[i])
        elif k == "compound":
            if not (entry & set(m.children[i])):
                for d in m.default_child(i):
                    entry.add(d)
                    if d not in m.children[i]: entry |= set(m.anc(d))
    inputs = {"state_active_%d_sig" % i: 0 for i in range(n)}
    for s_ in set(v for e in eqs.values() for v in vhdleval._vars(e)):
        if s_.startswith("event_") and s_.endswith("_sig") and s_ not in eqs: inputs[s_] = 0
    inputs["spontaneous_en"] = 1; inputs["in_complete_entry_set_0_sig"] = 1
    for k in condk: inputs["transition_condition_fulfilled_%d_i" % k] = 1
    env, stable = vhdleval.solve(eqs, inputs)
    got = frozenset(i for i in range(n) if env.get("state_next_%d_sig" % i, 0))
    if got != frozenset(entry) or not stable:
        bad.append(("RESET", None, {}, sorted(entry), sorted(got), stable, []))
    if verbose:
        for b in bad[:10]:
            print("MISMATCH cfg=%s ev=%s conds=%s ref=%s vhdl=%s stable=%s sel=%s" % b)
    return bad

if __name__ == "__main__":
    b = compare(sys.argv[1], sys.argv[2])
    print("mismatches:", len(b))
    sys.exit(1 if b else 0)
