// Replay for C10 R10.5(i): lost wake-up in BasicDelayedEventQueue::stop() (non-sticky event_base_loopbreak).
// Creates and destroys delayed queues; a watchdog reports the iteration at which destruction hangs.
#include "uscxml/uscxml.h"
#include "uscxml/interpreter/BasicDelayedEventQueue.h"
#include <atomic>
#include <chrono>
#include <iostream>
#include <thread>
#include <unistd.h>
using namespace uscxml;
struct CB : public DelayedEventQueueCallbacks { void eventReady(Event& e, const std::string& uuid) {} };
static std::atomic<long> progress(0);
int main(int argc, char** argv) {
	long n = argc > 1 ? atol(argv[1]) : 20000;
	std::thread([] { long last = -1; for (;;) { std::this_thread::sleep_for(std::chrono::seconds(3)); long p = progress; if (p == last) { std::cout << "HANG: destruction of queue #" << p << " did not return within 3s" << std::endl; _exit(3); } last = p; } }).detach();
	CB cb;
	for (long i = 0; i < n; i++) { progress = i; BasicDelayedEventQueue* q = new BasicDelayedEventQueue(&cb); delete q; }
	std::cout << "created and destroyed " << n << " queues" << std::endl;
	return 0;
}
