#!/bin/bash
# usage: run.sh <build dir>   -- exits non-zero when the defect shows
B=$(cd "${1:?build dir}" && pwd); WT=$(cd "$B/.." && pwd); D=$(cd "$(dirname "$0")" && pwd)
export USCXML_NOCACHE_FILES=1
T=$(mktemp -d)
g++ -std=gnu++11 -w -I$WT/src -I$B -I$WT/contrib/src -DXERCESC_NS=xercesc_3_2 $D/rt.cpp -o $T/rt \
    -L$B/lib -luscxml -lxerces-c -lpthread -Wl,-rpath,$B/lib || exit 99
rc=0
# snapshot after the first tick; the second tick needs function ready() and global limit from the top-level <script>
for e in L F; do
  echo "=== engine $e"
  timeout 60 $T/rt $D/script.scxml $e 1 tick tick 2>&1 | grep -v "Registering"
  timeout 60 $T/rt $D/script.scxml $e 1 tick tick >/dev/null 2>&1 || rc=1
done
rm -rf $T
[ $rc = 0 ] && echo "OK" || echo "DEFECT: the resumed interpreter lost what the top-level <script> defined"
exit $rc
