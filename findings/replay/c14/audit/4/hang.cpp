// hang <file.scxml>: run to the first IDLE, wait until an invoked child is idle as well, then serialize().
// A watchdog reports when serialize() has not returned after 10 seconds.
#include "uscxml/config.h"
#include "uscxml/Interpreter.h"
#include "uscxml/interpreter/InterpreterImpl.h"
#include <iostream>
#include <thread>
#include <chrono>
#include <atomic>
#include <unistd.h>
using namespace uscxml;
int main(int argc, char** argv) {
	Interpreter a = Interpreter::fromURL(argv[1]);
	InterpreterState s;
	do { s = a.step(0); } while (s != USCXML_IDLE && s != USCXML_FINISHED);
	std::this_thread::sleep_for(std::chrono::milliseconds(500)); // child reaches its own idle state
	std::cout << "parent is IDLE in state p: " << a.isInState("p") << ", calling serialize()" << std::endl;
	std::atomic<bool> done(false);
	std::thread watchdog([&done]() {
		for (int i = 0; i < 100 && !done; i++) std::this_thread::sleep_for(std::chrono::milliseconds(100));
		if (!done) { std::cout << "HANG: serialize() did not return within 10s" << std::endl; _exit(1); }
	});
	std::string state = a.serialize();
	done = true;
	watchdog.join();
	std::cout << "serialize() returned " << state.size() << " bytes" << std::endl;
	_exit(0);
}
