#!/bin/bash
# usage: run.sh <build dir>   -- exits non-zero when the defect shows
B=$(cd "${1:?build dir}" && pwd); WT=$(cd "$B/.." && pwd); D=$(cd "$(dirname "$0")" && pwd)
export USCXML_NOCACHE_FILES=1
T=$(mktemp -d)
g++ -std=gnu++11 -w -I$WT/src -I$B -I$WT/contrib/src -DXERCESC_NS=xercesc_3_2 $D/hang.cpp -o $T/hang \
    -L$B/lib -luscxml -lxerces-c -lpthread -Wl,-rpath,$B/lib || exit 99
echo "=== control: no invoke"
timeout 60 $T/hang $D/noinv.scxml 2>&1 | grep -v Registering
echo "=== parent with an idle invoked scxml child"
timeout 60 $T/hang $D/inv.scxml 2>&1 | grep -v Registering
rc=${PIPESTATUS[0]}
rm -rf $T
[ $rc = 0 ] && echo "OK" || echo "DEFECT: serialize() at a stable point blocks for as long as the invoked child is idle"
exit $rc
