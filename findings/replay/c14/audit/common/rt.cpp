// round-trip harness: rt <file.scxml> <L|F> <k> ev1 ev2 ...
// runs interpreter A, delivers the first k events, serializes at the stable point,
// deserializes into fresh B, then delivers the remaining events to both and compares.
// pseudo events: "sleep:<ms>"
#include "uscxml/config.h"
#include "uscxml/Interpreter.h"
#include "uscxml/interpreter/InterpreterImpl.h"
#include "uscxml/interpreter/FastMicroStep.h"
#include "uscxml/interpreter/LargeMicroStep.h"
#include "uscxml/util/DOM.h"
#include <iostream>
#include <thread>
#include <chrono>
using namespace uscxml;

static std::string conf(Interpreter& i) {
	std::set<std::string> ids;
	for (auto e : i.getConfiguration()) {
		ids.insert(HAS_ATTR(e, X("id")) ? ATTR(e, X("id")) : "?");
	}
	std::string s;
	for (auto id : ids) s += id + " ";
	return s;
}
static const char* stname(InterpreterState s) {
	switch(s) {
	case USCXML_FINISHED: return "FINISHED"; case USCXML_IDLE: return "IDLE";
	case USCXML_MACROSTEPPED: return "MACROSTEPPED"; case USCXML_MICROSTEPPED: return "MICROSTEPPED";
	case USCXML_INITIALIZED: return "INITIALIZED"; case USCXML_INSTANTIATED: return "INSTANTIATED";
	case USCXML_CANCELLED: return "CANCELLED"; default: return "UNDEF";
	}
}
static InterpreterState settle(Interpreter& i) {
	InterpreterState s = USCXML_UNDEF;
	int n = 0;
	do { s = i.step(0); if (getenv("RT_DEBUG")) std::cerr << stname(s) << " "; } while (s != USCXML_IDLE && s != USCXML_FINISHED && ++n < 10000);
	return s;
}
static Interpreter make(const std::string& url, bool fast) {
	Interpreter i = Interpreter::fromURL(url);
	if (fast) {
		ActionLanguage al;
		al.microStepper = MicroStep(std::shared_ptr<MicroStepImpl>(new FastMicroStep(i.getImpl().get())));
		i.setActionLanguage(al);
	}
	return i;
}
static Event mkev(const std::string& ev) {
	size_t eq = ev.find('=');
	Event e(ev.substr(0, eq), Event::EXTERNAL);
	if (eq != std::string::npos) {
		std::string v = ev.substr(eq + 1);
		if (v[0] == '{' || v[0] == '[') e.data = Data::fromJSON(v);
		else if (v[0] == '\'') e.data = Data(v.substr(1), Data::VERBATIM);
		else e.data = Data(v, Data::INTERPRETED);
	}
	return e;
}
static std::string deliver(Interpreter& i, const std::string& ev) {
	if (ev.compare(0, 6, "sleep:") == 0) {
		std::this_thread::sleep_for(std::chrono::milliseconds(atoi(ev.c_str() + 6)));
	} else {
		i.receive(mkev(ev));
	}
	InterpreterState s = settle(i);
	return std::string(stname(s)) + " [" + conf(i) + "]";
}
int main(int argc, char** argv) {
	if (argc < 4) return 2;
	std::string url = argv[1];
	bool fast = argv[2][0] == 'F';
	int k = atoi(argv[3]);
	int rc = 0;
	try {
		Interpreter a = make(url, fast);
		InterpreterState s = settle(a);
		std::cout << "A start: " << stname(s) << " [" << conf(a) << "]" << std::endl;
		int idx = 4;
		for (int n = 0; n < k && idx < argc; n++, idx++) {
			std::cout << "A " << argv[idx] << ": " << deliver(a, argv[idx]) << std::endl;
		}
		if (getenv("RT_PENDING")) {
			std::string p = getenv("RT_PENDING");
			size_t pos = 0;
			while (pos != std::string::npos) {
				size_t c = p.find(';', pos);
				a.receive(mkev(p.substr(pos, c == std::string::npos ? c : c - pos)));
				pos = (c == std::string::npos ? c : c + 1);
			}
		}
		std::string state = a.serialize();
		if (getenv("RT_DUMP")) std::cout << state << std::endl;
		Interpreter b = make(url, fast);
		b.deserialize(state);
		InterpreterState sa = settle(a); std::string ca = std::string(stname(sa)) + " [" + conf(a) + "]";
		InterpreterState sb = settle(b); std::string cb = std::string(stname(sb)) + " [" + conf(b) + "]";
		std::cout << "after resume: A " << ca << " | B " << cb << (ca == cb ? "" : "   <== DIFFERENT") << std::endl;
		if (ca != cb) rc = 1;
		for (; idx < argc; idx++) {
			std::string ra, rb;
			if (strncmp(argv[idx], "sleep:", 6) == 0) {
				ra = deliver(a, argv[idx]); rb = deliver(b, "sleep:0");
			} else {
				ra = deliver(a, argv[idx]); rb = deliver(b, argv[idx]);
			}
			std::cout << argv[idx] << ": A " << ra << " | B " << rb << (ra == rb ? "" : "   <== DIFFERENT") << std::endl;
			if (ra != rb) rc = 1;
		}
	} catch (ErrorEvent& e) {
		std::cout << "EXCEPTION: " << e << std::endl;
		rc = 3;
	} catch (std::exception& e) {
		std::cout << "EXCEPTION: " << e.what() << std::endl;
		rc = 3;
	}
	std::cout << (rc ? "MISMATCH" : "same") << std::endl;
	return rc;
}
