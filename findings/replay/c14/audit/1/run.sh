#!/bin/bash
# usage: run.sh <build dir>   -- exits non-zero when the defect shows
B=$(cd "${1:?build dir}" && pwd); WT=$(cd "$B/.." && pwd); D=$(cd "$(dirname "$0")" && pwd)
export USCXML_NOCACHE_FILES=1
T=$(mktemp -d)
g++ -std=gnu++11 -w -I$WT/src -I$B -I$WT/contrib/src -DXERCESC_NS=xercesc_3_2 $D/rt.cpp -o $T/rt \
    -L$B/lib -luscxml -lxerces-c -lpthread -Wl,-rpath,$B/lib || exit 99
rc=0
# deliver "go" (state b sends itself "timeout" after 1500ms), snapshot, resume, wait 2000ms
for e in L F; do
  echo "=== engine $e"
  RT_DUMP=1 timeout 60 $T/rt $D/delay.scxml $e 1 go sleep:2000 2>&1 | grep -v "Registering" || true
  timeout 60 $T/rt $D/delay.scxml $e 1 go sleep:2000 >/dev/null 2>&1 || rc=1
done
rm -rf $T
[ $rc = 0 ] && echo "OK: resumed interpreter received the delayed event" || echo "DEFECT: pending delayed event is missing from the serialized state (delayQueue: null)"
exit $rc
