#!/bin/bash
# usage: run.sh <build dir>   -- exits non-zero when the defect shows
B=$(cd "${1:?build dir}" && pwd); WT=$(cd "$B/.." && pwd); D=$(cd "$(dirname "$0")" && pwd)
export USCXML_NOCACHE_FILES=1
T=$(mktemp -d)
g++ -std=gnu++11 -w -I$WT/src -I$B -I$WT/contrib/src -DXERCESC_NS=xercesc_3_2 $D/rt.cpp -o $T/rt \
    -L$B/lib -luscxml -lxerces-c -lpthread -Wl,-rpath,$B/lib || exit 99
rc=0
# snapshot taken in state USCXML_FINISHED (serialize() accepts it); the resumed interpreter never finishes
for e in L F; do
  echo "=== engine $e"
  timeout 60 $T/rt $D/fin.scxml $e 1 go x 2>&1 | grep -v "Registering"
  timeout 60 $T/rt $D/fin.scxml $e 1 go x >/dev/null 2>&1 || rc=1
done
rm -rf $T
[ $rc = 0 ] && echo "OK" || echo "DEFECT: a snapshot of a finished interpreter resumes as a running one"
exit $rc
