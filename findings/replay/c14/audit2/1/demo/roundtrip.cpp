// roundtrip <file.scxml> <large|fast> <cut> <sendAt> [event...]
//
// Runs the document macrostep by macrostep (Interpreter::step(0) until MACROSTEPPED / IDLE / FINISHED).
// After macrostep number <cut> (0: never) the interpreter is serialized and destroyed; a fresh interpreter for the same
// file and engine is created, deserialize()d and stepped on. The external events are enqueued after macrostep <sendAt>
// (into the resumed interpreter if <sendAt> == <cut>). Prints the configuration after every macrostep; the last line is
// "FINAL <configuration>".
#include "uscxml/config.h"
#include "uscxml/Interpreter.h"
#include "uscxml/interpreter/InterpreterImpl.h"
#include "uscxml/interpreter/LargeMicroStep.h"
#include "uscxml/interpreter/FastMicroStep.h"
#include "uscxml/util/DOM.h"
#include <iostream>
#include <sstream>
using namespace uscxml;

static Interpreter make(const std::string& file, const std::string& engine) {
	Interpreter i = Interpreter::fromURL(file);
	ActionLanguage al;
	if (engine == "fast")
		al.microStepper = MicroStep(std::shared_ptr<MicroStepImpl>(new FastMicroStep(i.getImpl().get())));
	else
		al.microStepper = MicroStep(std::shared_ptr<MicroStepImpl>(new LargeMicroStep(i.getImpl().get())));
	i.setActionLanguage(al);
	return i;
}

static std::string conf(Interpreter& i) {
	std::stringstream ss;
	for (auto e : i.getConfiguration())
		if (HAS_ATTR(e, X("id")))
			ss << ATTR(e, X("id")) << " ";
	return ss.str();
}

int main(int argc, char** argv) {
	if (argc < 5) {
		std::cerr << "usage: roundtrip file engine cut sendAt [event...]" << std::endl;
		return 2;
	}
	std::string file = argv[1], engine = argv[2];
	int cut = atoi(argv[3]), sendAt = atoi(argv[4]);

	Interpreter cur = make(file, engine);
	int macro = 0, idle = 0;
	InterpreterState s = USCXML_UNDEF;
	std::string last;
	try {
		while (s != USCXML_FINISHED && idle < 2 && macro < 100) {
			s = cur.step(0);
			if (s == USCXML_IDLE)
				idle++;
			if (s != USCXML_MACROSTEPPED && s != USCXML_IDLE && s != USCXML_FINISHED)
				continue;
			macro++;
			last = conf(cur);
			std::cout << "macrostep " << macro << ": " << last << std::endl;
			if (macro == cut) {
				std::string str = cur.serialize();
				if (getenv("DUMP_STATE"))
					std::cout << str << std::endl;
				cur = Interpreter(); // the original is gone before its state is resumed
				cur = make(file, engine);
				cur.deserialize(str);
				std::cout << "-- serialized, destroyed, resumed in a fresh interpreter" << std::endl;
				idle = 0;
			}
			if (macro == sendAt) {
				for (int k = 5; k < argc; k++)
					cur.receive(Event(argv[k], Event::EXTERNAL));
				idle = 0;
			}
		}
	} catch (ErrorEvent e) {
		std::cout << "EXCEPTION " << e << std::endl;
		last = "(exception)";
	}
	std::cout << "FINAL " << last << std::endl;
	return 0;
}
