#!/bin/bash
# usage: run.sh <build dir>; exits 1 if a resumed interpreter ends in another configuration than the uninterrupted one
BUILD=${1:?build dir}
. "$(dirname "$0")/common.sh"
for engine in large fast; do
	compare nil_data.scxml  $engine 1 1 go
	compare nil_param.scxml $engine 1 0
done
exit $RC
