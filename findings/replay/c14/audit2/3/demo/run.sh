#!/bin/bash
# usage: run.sh <build dir>; exits 1 if a resumed interpreter ends in another configuration than the uninterrupted one
BUILD=${1:?build dir}
. "$(dirname "$0")/common.sh"
for engine in large fast; do
	compare reply_to_origin.scxml $engine 1 0
	compare stored_location.scxml $engine 1 1 go
done
exit $RC
