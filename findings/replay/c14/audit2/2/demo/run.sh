#!/bin/bash
# usage: run.sh <build dir>; exits 1 if a resumed interpreter ends in another configuration than the uninterrupted one
BUILD=${1:?build dir}
. "$(dirname "$0")/common.sh"
for engine in large fast; do
	compare float_precision.scxml $engine 1 1 go
	compare big_integer.scxml     $engine 1 1 go
	compare float_subtype.scxml   $engine 1 1 go
	compare nonfinite.scxml       $engine 1 1 go
done
exit $RC
