# sourced by run.sh: builds ./roundtrip against the build directory in $BUILD
SRC=$(sed -n 's/^CMAKE_HOME_DIRECTORY:INTERNAL=//p' "$BUILD/CMakeCache.txt")
HERE=$(cd "$(dirname "$0")" && pwd)
g++ -std=gnu++11 -w -O0 -I"$SRC/src" -I"$BUILD" -I"$SRC/contrib/src" -DXERCESC_NS=xercesc_3_2 "$HERE/roundtrip.cpp" -o "$HERE/roundtrip" \
    -L"$BUILD/lib" -luscxml -lxerces-c -Wl,-rpath,"$BUILD/lib" || { echo "cannot build the harness"; exit 2; }
# compare <doc> <engine> <cut> <sendAt> [events]: final configuration without and with a serialize/deserialize at <cut>
compare() {
	doc=$1; engine=$2; cut=$3; sendAt=$4; shift 4
	a=$("$HERE/roundtrip" "$HERE/$doc" $engine 0 $sendAt "$@" 2>&1 | grep '^FINAL')
	b=$("$HERE/roundtrip" "$HERE/$doc" $engine $cut $sendAt "$@" 2>&1 | grep '^FINAL')
	if [ "$a" != "$b" ]; then
		echo "DEFECT  $doc [$engine] uninterrupted: $a | resumed after macrostep $cut: $b"
		RC=1
	else
		echo "same    $doc [$engine] $a"
	fi
}
RC=0
