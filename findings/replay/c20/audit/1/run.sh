#!/bin/bash
# usage: run.sh <build dir>; exits 1 if the list of validation issues differs between two processes that
# only differ in their heap layout (glibc malloc tunables), 0 otherwise
B=${1:?build dir}
D=$(cd "$(dirname "$0")" && pwd)
W=$(mktemp -d)
export TMPDIR=$W USCXML_NOCACHE_FILES=YES
cd "$D"
# 1) validation through the interpreter driver
"$B/bin/uscxml-browser" -c issues.scxml 2>&1 | grep "Issue" > $W/browser.default
GLIBC_TUNABLES=glibc.malloc.mmap_threshold=20000 "$B/bin/uscxml-browser" -c issues.scxml 2>&1 | grep "Issue" > $W/browser.mmap
# 2) the same list as printed by the transpiler front-end (-v validates before transforming)
"$B/bin/uscxml-transform" -v -tc -i issues.scxml -o $W/out1.c 2>&1 | grep "Issue" > $W/transform.default
GLIBC_TUNABLES=glibc.malloc.mmap_threshold=20000 "$B/bin/uscxml-transform" -v -tc -i issues.scxml -o $W/out2.c 2>&1 | grep "Issue" > $W/transform.mmap
rc=0
for k in browser transform; do
  echo "== $k, default malloc:";   sed 's/^/   /' $W/$k.default
  echo "== $k, mmap_threshold=20000:"; sed 's/^/   /' $W/$k.mmap
  if ! cmp -s $W/$k.default $W/$k.mmap; then echo "DEFECT: $k reports the same issues in a different order"; rc=1; fi
done
# same set of lines?
if [ "$(sort $W/browser.default | md5sum)" = "$(sort $W/browser.mmap | md5sum)" ]; then echo "(the two lists hold the same issues, only the order differs)"; fi
rm -rf $W
exit $rc
