#!/bin/bash
# usage: run.sh <build dir>; exits 1 when the output of interpreting a document depends on the cache file
# a previous run left in $TMPDIR/uscxml
B=${1:?build dir}
D=$(cd "$(dirname "$0")" && pwd)
W=$(mktemp -d)
export TMPDIR=$W
unset USCXML_NOCACHE_FILES
cd "$D"
"$B/bin/uscxml-browser" doc.scxml > $W/run1 2>&1     # cold: no cache file yet
ls $W/uscxml > $W/left_behind
"$B/bin/uscxml-browser" doc.scxml > $W/run2 2>&1     # warm: finds the file run 1 wrote
"$B/bin/uscxml-browser" doc.scxml > $W/run3 2>&1
echo "files left behind by run 1: $(cat $W/left_behind)"
echo "== diff run1 (cold) run2 (warm)"; diff $W/run1 $W/run2 | sed "s#$W#\$TMPDIR#"
rc=0
cmp -s $W/run1 $W/run2 || { echo "DEFECT: second run of the same document prints a different trace than the first"; rc=1; }
cmp -s $W/run2 $W/run3 && echo "(run2 and run3, both warm, are identical)"
rm -rf $W/uscxml
USCXML_NOCACHE_FILES=YES "$B/bin/uscxml-browser" doc.scxml > $W/n1 2>&1
USCXML_NOCACHE_FILES=YES "$B/bin/uscxml-browser" doc.scxml > $W/n2 2>&1
cmp -s $W/n1 $W/n2 && echo "(with USCXML_NOCACHE_FILES=YES both runs are identical)"
rm -rf $W
exit $rc
