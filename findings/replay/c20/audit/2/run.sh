#!/bin/bash
# usage: run.sh <build dir>; exits 1 when the trace of two monitors depends on where the monitor objects live
B=${1:?build dir}
D=$(cd "$(dirname "$0")" && pwd)
SRC=$(grep '^CMAKE_HOME_DIRECTORY' "$B/CMakeCache.txt" | cut -d= -f2)
W=$(mktemp -d)
export TMPDIR=$W USCXML_NOCACHE_FILES=YES
g++ -std=gnu++11 -O0 -g -I$SRC/src -I$B -I$SRC/contrib/src -DXERCESC_NS=xercesc_3_2 "$D/monorder.cpp" -o $W/monorder \
    -L$B/lib -luscxml -lxerces-c -Wl,-rpath,$B/lib || exit 2
cd "$D"
$W/monorder slots         m.scxml 2>/dev/null | grep -E '^[AB]:' > $W/t1
$W/monorder slots-swapped m.scxml 2>/dev/null | grep -E '^[AB]:' > $W/t2
$W/monorder heap m.scxml 2>/dev/null | grep -E '^[AB]:' > $W/t3
GLIBC_TUNABLES=glibc.malloc.mmap_threshold=4194304 $W/monorder heap m.scxml 2>/dev/null | grep -E '^[AB]:' > $W/t4
echo "== A at the lower address:";  paste -sd' ' $W/t1
echo "== B at the lower address:";  paste -sd' ' $W/t2
echo "== heap objects, default malloc:";  paste -sd' ' $W/t3
echo "== heap objects, mmap_threshold=4M:";  paste -sd' ' $W/t4
rc=0
if ! cmp -s $W/t1 $W/t2; then echo "DEFECT: same document, same registration order, trace differs with the placement of the monitors"; rc=1; fi
if ! cmp -s $W/t3 $W/t4; then echo "DEFECT: trace differs between two processes that only differ in malloc tunables"; rc=1; fi
rm -rf $W
exit $rc
