// Two monitors write into one trace. They are always registered in the same order (first "A", then "B");
// the only thing that varies is where the two objects live.
#include "uscxml/Interpreter.h"
#include "uscxml/interpreter/InterpreterMonitor.h"
#include <iostream>
#include <new>
#include <cstring>
using namespace uscxml;

struct Mon : public InterpreterMonitor {
	std::string tag;
	Mon(const std::string& t) : tag(t) {}
	void beforeEnteringState(const std::string&, const std::string& n, const XERCESC_NS::DOMElement*) {
		std::cout << tag << ":enter:" << n << std::endl;
	}
	void beforeExitingState(const std::string&, const std::string& n, const XERCESC_NS::DOMElement*) {
		std::cout << tag << ":exit:" << n << std::endl;
	}
};

int main(int argc, char** argv) {
	std::string mode = argv[1];
	Mon *a, *b;
	if (mode == "slots" || mode == "slots-swapped") {
		// same process image, same registration order, objects placed in slot 0/1 or 1/0 of one buffer
		static char buf[2][sizeof(Mon)] __attribute__((aligned(16)));
		bool swapped = (mode == "slots-swapped");
		a = new (buf[swapped ? 1 : 0]) Mon("A");
		b = new (buf[swapped ? 0 : 1]) Mon("B");
	} else {
		// "heap": plain new; B drags a 256k buffer allocated right before A, so that malloc tunables move things around
		char* big = new char[256 * 1024 + sizeof(Mon)];
		b = new (big) Mon("B");
		a = new Mon("A");
	}
	Interpreter interp = Interpreter::fromURL(argv[2]);
	interp.addMonitor(a);   // registered first
	interp.addMonitor(b);   // registered second
	InterpreterState s = USCXML_UNDEF;
	while (s != USCXML_FINISHED) s = interp.step();
	return 0;
}
