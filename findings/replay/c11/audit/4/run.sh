#!/bin/bash
# usage: run.sh <build dir>     exits non-zero when the defect shows
B=${1:?build dir}
D=$(cd "$(dirname "$0")" && pwd)
bad=0
for doc in target-case.scxml target-case-internal.scxml; do
	echo "== $doc"
	out=$(timeout 60 "$B/bin/uscxml-browser" "$D/$doc" 2>&1 | grep "^\[Log\]")
	echo "$out"
	echo "$out" | grep -q 'RESULT: "pass"' || bad=1
done
[ $bad = 1 ] && echo "DEFECT: an event addressed to invocation #_Parent / #_INTERNAL was routed to the parent session / the internal queue"
exit $bad
