#!/bin/bash
# usage: run.sh <build dir>     exits non-zero when the defect shows
B=${1:?build dir}
D=$(cd "$(dirname "$0")" && pwd)
bad=0
for doc in finalize-self.scxml finalize-forwarded.scxml; do
	echo "== $doc"
	out=$(timeout 60 "$B/bin/uscxml-browser" "$D/$doc" 2>&1 | grep "^\[Log\]")
	echo "$out"
	echo "$out" | grep -q 'RESULT: "pass"' || bad=1
done
[ $bad = 1 ] && echo "DEFECT: <finalize> executed for an event that does not come from the invoked child"
exit $bad
