#!/bin/bash
# usage: run.sh <build dir>          (unmodified build; exits 1 when the interpreter crashes)
#        TSAN_BUILD=<dir> run.sh <build dir>   additionally shows the ThreadSanitizer report of an instrumented build
B=${1:?build dir}
D=$(cd "$(dirname "$0")" && pwd)
T=$(mktemp -d)
sh "$D/gen.sh" > "$T/stress.scxml"
bad=0
for i in 1 2 3 4 5; do
	timeout 120 "$B/bin/uscxml-browser" "$T/stress.scxml" > "$T/out.$i" 2>&1
	rc=$?
	if [ $rc -ge 128 ]; then
		echo "run $i: uscxml-browser died with signal $((rc-128)) (exit status $rc)"
		bad=1
		break
	fi
	echo "run $i: exit status $rc, $(grep cycles "$T/out.$i")"
done
if [ -n "$TSAN_BUILD" ] && [ -x "$TSAN_BUILD/bin/uscxml-browser" ]; then
	TSAN_OPTIONS="halt_on_error=0" timeout 300 "$TSAN_BUILD/bin/uscxml-browser" "$T/stress.scxml" > "$T/tsan.log" 2>&1
	if grep -q "data race on vptr" "$T/tsan.log" || grep -A40 "ThreadSanitizer: data race" "$T/tsan.log" | grep -q "InterpreterImpl::enqueueAtInvoker"; then
		echo "ThreadSanitizer: data race between InterpreterImpl::enqueueAtInvoker (timer thread) and InterpreterImpl::invoke/uninvoke (interpreter thread)"
		grep -A3 "data race on vptr" "$T/tsan.log" | head -8
		bad=1
	fi
fi
if [ $bad = 1 ]; then
	echo "DEFECT: a delayed <send target=\"#_c\"> delivered by the timer thread races with invoke/uninvoke of \"c\""
	if command -v gdb >/dev/null; then
		timeout 120 gdb -batch -ex run -ex "bt 8" -ex "thread 1" -ex "bt 12" --args "$B/bin/uscxml-browser" "$T/stress.scxml" 2>&1 | grep -E "^#|SIGSEGV|SIGABRT" | cut -c1-200 | head -24
	fi
	rm -rf "$T"
	exit 1
fi
rm -rf "$T"
echo "no crash observed"
exit 0
