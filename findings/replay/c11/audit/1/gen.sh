#!/bin/sh
# writes the stress document to stdout: 1500 delayed sends to "#_c" (one per millisecond, delivered by the
# parent's timer thread) while the parent invokes and un-invokes "c" every ~25 ms on its interpreter thread
cat <<'XML'
<scxml xmlns="http://www.w3.org/2005/07/scxml" version="1.0" datamodel="lua" initial="boot">
  <datamodel><data id="n" expr="0"/></datamodel>
  <state id="boot">
    <onentry>
XML
i=1
while [ $i -le 1500 ]; do
  echo "      <send target=\"#_c\" event=\"tick\" delay=\"${i}ms\"/>"
  i=$((i+1))
done
cat <<'XML'
      <send event="quit" delay="1700ms"/>
    </onentry>
    <transition target="s"/>
  </state>
  <state id="run">
    <!-- ticks that find no invocation "c" are answered with error.communication: ignore them -->
    <transition event="error.communication"/>
    <transition event="quit" target="end"/>
    <state id="s">
      <invoke type="scxml" id="c">
        <content>
          <scxml xmlns="http://www.w3.org/2005/07/scxml" version="1.0" datamodel="lua" initial="a">
            <state id="a">
              <onentry>
                <send target="#_parent" event="leave" delay="20ms"/>
              </onentry>
              <transition event="tick"/>
            </state>
          </scxml>
        </content>
      </invoke>
      <transition event="leave" target="t"/>
    </state>
    <state id="t">
      <onentry><assign location="n" expr="n + 1"/><send event="back" delay="5ms"/></onentry>
      <transition event="back" target="s"/>
    </state>
  </state>
  <final id="end"><onentry><log label="cycles" expr="n"/></onentry></final>
</scxml>
XML
