// An invoked child that finished before the parent was serialized: what does the parent see after deserialize()?
#include "uscxml/uscxml.h"
#include "uscxml/interpreter/InterpreterImpl.h"
#include "uscxml/interpreter/InterpreterMonitor.h"
#include <iostream>
#include <sstream>
using namespace uscxml;

// state s invokes "c" (says hello to the parent, then finishes) and, with argument "slow", a second child "big"
// whose document is large, so that setting it up takes the parent's thread a while
static std::string makeDoc(bool withBig) {
	std::stringstream ss;
	ss << "<scxml xmlns=\"http://www.w3.org/2005/07/scxml\" version=\"1.0\" datamodel=\"lua\" initial=\"s\">\n"
	   << " <datamodel><data id=\"dones\" expr=\"0\"/><data id=\"hellos\" expr=\"0\"/></datamodel>\n"
	   << " <state id=\"s\">\n"
	   << "  <invoke type=\"scxml\" id=\"c\"><content>\n"
	   << "   <scxml xmlns=\"http://www.w3.org/2005/07/scxml\" version=\"1.0\" datamodel=\"lua\" initial=\"a\">\n"
	   << "    <state id=\"a\"><onentry><send target=\"#_parent\" event=\"hello\"/></onentry><transition target=\"f\"/></state>\n"
	   << "    <final id=\"f\"/>\n"
	   << "   </scxml></content></invoke>\n";
	if (withBig) {
		ss << "  <invoke type=\"scxml\" id=\"big\"><content>\n"
		   << "   <scxml xmlns=\"http://www.w3.org/2005/07/scxml\" version=\"1.0\" datamodel=\"lua\" initial=\"f\">\n"
		   << "    <final id=\"f\"/>\n";
		for (int i = 0; i < 1500; i++)
			ss << "    <state id=\"x" << i << "\"><transition event=\"e" << i << "\" target=\"x" << (i + 1) % 1500 << "\"/></state>\n";
		ss << "   </scxml></content></invoke>\n";
	}
	ss << "  <transition event=\"hello\"><assign location=\"hellos\" expr=\"hellos + 1\"/></transition>\n"
	   << "  <transition event=\"done.invoke.c\"><assign location=\"dones\" expr=\"dones + 1\"/></transition>\n"
	   << "  <transition event=\"done.invoke.big\"/>\n"
	   << "  <transition event=\"quit\" target=\"end\"/>\n"
	   << " </state>\n"
	   << " <final id=\"end\"/>\n"
	   << "</scxml>\n";
	return ss.str();
}

struct Mon : public InterpreterMonitor {
	std::string tag;
	int dones = 0, hellos = 0, bigs = 0;
	Mon(const std::string& t) : tag(t) {}
	void beforeProcessingEvent(const std::string& sid, const Event& e) {
		std::cout << "  [" << tag << "] parent processes " << e.name << std::endl;
		if (e.name == "done.invoke.c") dones++;
		if (e.name == "done.invoke.big") bigs++;
		if (e.name == "hello") hellos++;
	}
};

int main(int argc, char** argv) {
	bool slow = argc > 1 && std::string(argv[1]) == "slow";
	std::string doc = makeDoc(slow);
	std::string state;
	{
		Interpreter i1 = Interpreter::fromXML(doc, "");
		Mon m1("before serialize");
		i1.addMonitor(&m1);
		while (true) {
			InterpreterState st = i1.step(300);
			if (st == USCXML_IDLE && m1.dones == 1 && (!slow || m1.bigs == 1)) break;
			if (st == USCXML_FINISHED) return 2;
		}
		state = i1.serialize();
		std::cout << "serialized with hello=" << m1.hellos << " done.invoke.c=" << m1.dones << " (both already processed by the parent)" << std::endl;
	}
	Interpreter i2 = Interpreter::fromXML(doc, "");
	Mon m2("after deserialize");
	i2.addMonitor(&m2);
	i2.deserialize(state);
	for (int k = 0; k < 8; k++) i2.step(200);
	Event q("quit");
	i2.receive(q);
	while (i2.step(200) != USCXML_FINISHED);
	std::cout << "after deserialize: hello=" << m2.hellos << " done.invoke.c=" << m2.dones << " (expected 0 and 0)" << std::endl;
	int rc = 0;
	if (m2.dones != 0) { std::cout << "DEFECT: done.invoke.c delivered a second time for the same invocation" << std::endl; rc |= 1; }
	if (m2.hellos != 0) { std::cout << "DEFECT: the restored child ran its initial entry again (second hello)" << std::endl; rc |= 2; }
	return rc;
}
