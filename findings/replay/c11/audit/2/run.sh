#!/bin/bash
# usage: run.sh <build dir>     exits non-zero when the defect shows
B=${1:?build dir}
D=$(cd "$(dirname "$0")" && pwd)
S=$(grep '^CMAKE_HOME_DIRECTORY' "$B/CMakeCache.txt" | cut -d= -f2)
T=$(mktemp -d)
g++ -std=gnu++11 -g -I"$S/src" -I"$B" -I"$S/contrib/src" -DXERCESC_NS=xercesc_3_2 "$D/resume.cpp" -o "$T/resume" \
	-L"$B/lib" -luscxml -lxerces-c -lpthread -Wl,-rpath,"$B/lib" || exit 99
export USCXML_NOCACHE_FILES=YES
bad=0
echo "== one child, finished before serialize"
timeout 60 "$T/resume" 2>/dev/null; rc=$?; [ $rc -ne 0 ] && bad=1
echo "== same, plus a large sibling invocation that keeps the deserializing thread busy between start and restore of 'c'"
timeout 120 "$T/resume" slow 2>/dev/null; rc=$?; [ $rc -ne 0 ] && bad=1
rm -rf "$T"
exit $bad
