#!/bin/sh
# usage: run.sh <build dir>; exits non-zero when the defect shows
B=${1:?usage: run.sh BUILD_DIR}
D=$(cd "$(dirname "$0")" && pwd)
OUT=$(mktemp)
timeout 60 "$B/bin/uscxml-browser" "$D/done_invoke_donedata.scxml" > "$OUT" 2>&1
grep -E "\[Log\]" "$OUT"
if grep -q 'Outcome: "pass"' "$OUT"; then rm -f "$OUT"; echo "ok: done.invoke.c1 carried the donedata of the child"; exit 0; fi
if grep -q 'data: nil' "$OUT"; then rm -f "$OUT"; echo "DEFECT: done.invoke.c1 arrived without the donedata of the child's final state"; exit 1; fi
rm -f "$OUT"; echo "unexpected outcome"; exit 2
