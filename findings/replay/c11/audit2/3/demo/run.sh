#!/bin/sh
# usage: run.sh <build dir>; exits non-zero when the defect shows
B=${1:?usage: run.sh BUILD_DIR}
D=$(cd "$(dirname "$0")" && pwd)
bad=0
for doc in invokeid_scxml_prefix.scxml generated_id_scxml_prefix.scxml; do
	OUT=$(mktemp)
	timeout 60 "$B/bin/uscxml-browser" "$D/$doc" > "$OUT" 2>&1
	echo "== $doc"; grep -E "\[Log\]" "$OUT"
	if grep -q 'Outcome: "pass"' "$OUT"; then echo "ok: the event reached the invocation";
	elif grep -q 'err: "error.communication"' "$OUT"; then echo "DEFECT: send to #_<invokeid> raised error.communication, the child never got the event"; bad=1;
	else echo "unexpected outcome"; bad=2; fi
	rm -f "$OUT"
done
exit $bad
