#!/bin/sh
# usage: run.sh <build dir>; exits non-zero when the defect shows
B=${1:?usage: run.sh BUILD_DIR}
D=$(cd "$(dirname "$0")" && pwd)
OUT=$(mktemp)
timeout 60 "$B/bin/uscxml-browser" "$D/reply_to_origin_after_cancel.scxml" > "$OUT" 2>&1
grep -E "late event|Outcome" "$OUT"
if grep -q 'Outcome: "pass"' "$OUT"; then rm -f "$OUT"; echo "ok: nothing of the cancelled child reached the parent"; exit 0; fi
if grep -q 'late event' "$OUT"; then rm -f "$OUT"; echo "DEFECT: an event sent by the cancelled child was processed by the parent"; exit 1; fi
rm -f "$OUT"; echo "unexpected outcome"; exit 2
