#include "uscxml/Interpreter.h"
#include "uscxml/interpreter/InterpreterImpl.h"
#include "uscxml/interpreter/InterpreterMonitor.h"
#include "uscxml/interpreter/FastMicroStep.h"
#include "uscxml/interpreter/LargeMicroStep.h"
#include "uscxml/util/DOM.h"
#include <iostream>
#include <mutex>
#include <chrono>
using namespace uscxml;
static std::mutex m;
static std::string root;
static std::string tag(const std::string& s){ return s==root? "P":"c:"+s.substr(0,4);}    
struct Mon : public InterpreterMonitor {
  Mon(){ copyToInvokers(true);}    
  void beforeProcessingEvent(const std::string& s, const Event& e){ std::lock_guard<std::mutex> l(m); std::cout<<tag(s)<<" event "<<e.name<<" invokeid="<<e.invokeid<<" origin="<<e.origin<<std::endl;}
  void beforeInvoking(const std::string& s, const XERCESC_NS::DOMElement*, const std::string& id){ std::lock_guard<std::mutex> l(m); std::cout<<tag(s)<<" beforeInvoking "<<id<<std::endl;}
  void afterInvoking(const std::string& s, const XERCESC_NS::DOMElement*, const std::string& id){ std::lock_guard<std::mutex> l(m); std::cout<<tag(s)<<" afterInvoking "<<id<<std::endl;}
  void beforeUninvoking(const std::string& s, const XERCESC_NS::DOMElement*, const std::string& id){ std::lock_guard<std::mutex> l(m); std::cout<<tag(s)<<" beforeUninvoking "<<id<<std::endl;}
  void afterUninvoking(const std::string& s, const XERCESC_NS::DOMElement*, const std::string& id){ std::lock_guard<std::mutex> l(m); std::cout<<tag(s)<<" afterUninvoking "<<id<<std::endl;}
  void beforeEnteringState(const std::string& s, const std::string& n, const XERCESC_NS::DOMElement*){ std::lock_guard<std::mutex> l(m); std::cout<<tag(s)<<" enter "<<n<<std::endl;}
  void beforeExitingState(const std::string& s, const std::string& n, const XERCESC_NS::DOMElement*){ std::lock_guard<std::mutex> l(m); std::cout<<tag(s)<<" exit "<<n<<std::endl;}
};
int main(int argc, char** argv){
  std::string eng = argc>2? argv[2]:"large";
  try {
  Interpreter ip = Interpreter::fromURL(argv[1]);
  root = ip.getImpl()->getSessionId();
  if (eng=="fast"){ ActionLanguage al; al.microStepper = MicroStep(std::shared_ptr<MicroStepImpl>(new FastMicroStep(ip.getImpl().get()))); ip.setActionLanguage(al);}    
  Mon mon; ip.addMonitor(&mon);
  InterpreterState st = USCXML_UNDEF;
  auto t0=std::chrono::steady_clock::now();
  while(st!=USCXML_FINISHED){ st = ip.step(200); if (std::chrono::steady_clock::now()-t0 > std::chrono::seconds(argc>3?atoi(argv[3]):10)) { std::cout<<"TIMEOUT"<<std::endl; return 3;} }
  bool pass = ip.isInState("pass");
  std::cout<<(pass?"RESULT pass":"RESULT fail")<<std::endl;
  return pass?0:1;
  } catch (Event e) { std::cerr<<"thrown "<<e<<std::endl; return 2; }
}
