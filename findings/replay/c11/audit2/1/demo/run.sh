#!/bin/sh
# usage: run.sh <build dir>; exits non-zero when the defect shows
B=${1:?usage: run.sh BUILD_DIR}
D=$(cd "$(dirname "$0")" && pwd)
OUT=$(mktemp)
timeout 60 "$B/bin/uscxml-browser" "$D/xml_event_outlives_child.scxml" > "$OUT" 2>&1
rc=$?
tail -5 "$OUT"
if [ $rc -ge 128 ]; then
	echo "DEFECT: uscxml-browser died with signal $((rc-128)) while the parent processed the XML event of its cancelled child"
	rm -f "$OUT"; exit 1
fi
# the freed block may still look intact: ask valgrind
if command -v valgrind >/dev/null 2>&1; then
	timeout 300 valgrind -q --error-limit=no "$B/bin/uscxml-browser" "$D/xml_event_outlives_child.scxml" > "$OUT" 2>&1
	if grep -q "Invalid read" "$OUT"; then
		grep -m1 -A12 "Invalid read" "$OUT"
		echo "DEFECT: the parent reads the freed DOM of its cancelled child"
		rm -f "$OUT"; exit 1
	fi
fi
grep -q 'Outcome: "pass"' "$OUT" && { echo "ok: event processed"; rm -f "$OUT"; exit 0; }
echo "unexpected outcome (rc=$rc)"; rm -f "$OUT"; exit 2
