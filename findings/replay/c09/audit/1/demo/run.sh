#!/bin/sh
# usage: run.sh <build dir>   (exits non-zero when the defect shows)
B=${1:-/tmp/wta/C09/_build}
D=$(cd "$(dirname "$0")" && pwd)
start=$(date +%s.%N)
$B/bin/uscxml-browser $D/huge_delay.scxml > $D/out.txt 2>&1
end=$(date +%s.%N)
grep "Outcome" $D/out.txt
echo "elapsed: $(echo "$end - $start" | bc) s"
if grep -q 'Outcome.*fail' $D/out.txt; then
	echo "DEFECT: the event with delay=\"4294968s\" (49.7 days) was delivered before the one with delay=\"3s\""
	exit 1
fi
exit 0
