#!/bin/sh
# usage: run.sh <build dir>   (exits non-zero when the defect shows)
B=${1:-/tmp/wta/C09/_build}
S=$(cd "$B/.." && pwd)
D=$(cd "$(dirname "$0")" && pwd)
g++ -std=gnu++11 -g -I$S/src -I$B -I$S/contrib/src -DXERCESC_NS=xercesc_3_2 $D/destroy_race.cpp -o $D/destroy_race \
    -L$B/lib -luscxml -lxerces-c -lpthread -Wl,-rpath,$B/lib 2>/dev/null || { echo "compile failed"; exit 2; }
$D/destroy_race > $D/out.txt 2>&1
rc=$?
grep -v "^\[Info\]" $D/out.txt
exit $rc
