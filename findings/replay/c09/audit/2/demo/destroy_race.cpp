// A delayed <send> is being delivered by the timer thread (the I/O processor is slow, as a network
// send would be) while the application drops the interpreter. ~InterpreterImpl "cancels" all delayed
// events, finds none pending (the timer callback already removed the entry) and goes on to destroy
// _ioProcs, _invokers, ... although the timer thread is still inside InterpreterImpl::eventReady.
#include "uscxml/uscxml.h"
#include "uscxml/plugins/Factory.h"
#include "uscxml/plugins/IOProcessorImpl.h"
#include <atomic>
#include <chrono>
#include <thread>
#include <iostream>

using namespace uscxml;

static std::atomic<int> deliveriesRunning(0);
static std::atomic<bool> destroyedWhileDelivering(false);
static std::atomic<bool> deliveryStarted(false);
static std::atomic<bool> canaryBroken(false);

class SlowIOProcessor : public IOProcessorImpl {
public:
	SlowIOProcessor() : _delivering(false), _canary(0xC0FFEE) {}
	virtual ~SlowIOProcessor() {
		if (_delivering) {
			destroyedWhileDelivering = true;
			std::cerr << "!! I/O processor destroyed while the timer thread is inside its eventFromSCXML()" << std::endl;
		}
		_canary = 0xDEAD;
	}
	virtual std::shared_ptr<IOProcessorImpl> create(IOProcessorCallbacks* callbacks) {
		std::shared_ptr<SlowIOProcessor> p(new SlowIOProcessor());
		p->_callbacks = callbacks;
		return p;
	}
	virtual std::list<std::string> getNames() {
		std::list<std::string> names;
		names.push_back("slow");
		return names;
	}
	virtual Data getDataModelVariables() { return Data(); }
	virtual bool isValidTarget(const std::string& target) { return true; }
	virtual void eventFromSCXML(const std::string& target, const Event& event) {
		_delivering = true;
		deliveryStarted = true;
		std::cerr << "timer thread: delivering '" << event.name << "' (slow)" << std::endl;
		std::this_thread::sleep_for(std::chrono::milliseconds(400)); // e.g. a blocking network send
		if (_canary != 0xC0FFEE) { // our own object was freed under our feet
			canaryBroken = true;
			std::cerr << "!! timer thread: this I/O processor was destroyed during delivery (canary " << std::hex << _canary << ")" << std::endl;
		}
		_delivering = false;
	}
	volatile bool _delivering;
	volatile unsigned _canary;
};

static const char* doc =
    "<scxml xmlns=\"http://www.w3.org/2005/07/scxml\" version=\"1.0\" datamodel=\"null\" initial=\"s0\">"
    " <state id=\"s0\">"
    "  <onentry><send type=\"slow\" target=\"somewhere\" event=\"ping\" delay=\"50ms\"/></onentry>"
    " </state>"
    "</scxml>";

int main() {
	Factory::getInstance()->registerIOProcessor(new SlowIOProcessor());
	{
		Interpreter interp = Interpreter::fromXML(doc, "");
		// run until the session idles in s0, the send is scheduled by then
		InterpreterState st;
		do {
			st = interp.step(0);
		} while (st != USCXML_IDLE && st != USCXML_FINISHED);

		// wait until the timer fired and the timer thread is busy delivering
		while (!deliveryStarted)
			std::this_thread::sleep_for(std::chrono::milliseconds(5));
		std::this_thread::sleep_for(std::chrono::milliseconds(50));
		std::cerr << "main: dropping the interpreter" << std::endl;
	} // ~Interpreter -> ~InterpreterImpl
	std::cerr << "main: interpreter destroyed" << std::endl;

	if (destroyedWhileDelivering || canaryBroken) {
		std::cerr << "DEFECT: interpreter members were destroyed while a delayed event was being delivered" << std::endl;
		return 1;
	}
	std::cerr << "ok: destruction waited for the delivery in flight" << std::endl;
	return 0;
}
