#!/bin/sh
# usage: run.sh <build dir>   (exits non-zero when the defect shows)
B=${1:-/tmp/wta/C09/_build}
D=$(cd "$(dirname "$0")" && pwd)
rc=0
for doc in nodigits nodigits_attr; do
	$B/bin/uscxml-browser $D/$doc.scxml > $D/$doc.out 2>&1
	grep -H "Outcome" $D/$doc.out
	if grep -q 'Outcome.*fail' $D/$doc.out; then
		echo "DEFECT ($doc): neither 'ping' nor 'error.execution' within 2 s - the event was scheduled with an uninitialised delay"
		rc=1
	fi
done
# the delay actually used (needs gdb; informational only)
if command -v gdb >/dev/null 2>&1; then
	gdb -q -batch -ex "set breakpoint pending on" -ex "break uscxml::InterpreterImpl::enqueue" -ex run -ex "print delayMs" \
	    --args $B/bin/uscxml-browser $D/nodigits.scxml 2>/dev/null | grep '^\$1' | sed 's/^\$1 = /delayMs passed to InterpreterImpl::enqueue for "ping": /'
fi
exit $rc
