#!/bin/sh
# usage: run.sh <build dir>   (exits non-zero when the defect shows)
# needs spin on the PATH
B=${1:-/tmp/wta/C09/_build}
D=$(cd "$(dirname "$0")" && pwd)
W=$(mktemp -d)
rc=0
for doc in watchdog_control watchdog; do
	ref=$($B/bin/uscxml-browser $D/$doc.scxml 2>&1 | grep Outcome | sed 's/.*Outcome: *//; s/"//g')
	$B/bin/uscxml-transform -tpml -i $D/$doc.scxml -o $W/$doc.pml >/dev/null 2>&1 || { echo "transform failed"; exit 2; }
	pass=$(grep '#define PASS ' $W/$doc.pml | awk '{print $3}')
	fail=$(grep '#define FAIL ' $W/$doc.pml | awk '{print $3}')
	foo=$(grep '#define FOO ' $W/$doc.pml | awk '{print $3}')
	out=$(cd $W && spin -T $doc.pml 2>&1 | grep -o 'Outcome: *[0-9]*' | grep -o '[0-9]*$')
	if [ "$out" = "$pass" ]; then pml=pass; elif [ "$out" = "$fail" ]; then pml=fail; else pml="?($out)"; fi
	echo "$doc: interpreter=$ref  promela-model=$pml   (literal sendid \"foo\" is number $foo in the model)"
	if [ "$ref" != "$pml" ]; then
		echo "DEFECT: in the Promela model <cancel sendidexpr=\"Var1\"> removed the event with sendid \"foo\""
		rc=1
	fi
done
rm -rf $W
exit $rc
