#include "uscxml/uscxml.h"
#include <iostream>
using namespace uscxml;
int main() {
	Event e; e.name = "foo"; e.data = Data("payload", Data::VERBATIM); e.data.compound["k"] = Data("v", Data::VERBATIM);
	Data d = e;
	Event f = Event::fromData(d);
	std::cout << "payload after Event -> Data -> Event: " << Data::toJSON(f.data) << std::endl;
	return f.data.compound.count("k") ? 0 : 1;
}
