#!/bin/bash
# exits 1 when a document the interpreter runs yields C that does not compile
. "$(dirname "$0")/common.sh"
build_itrace
rc=0
for d in ids_dash_colon ids_dot_underscore prefixed_transition; do
  echo "== $d.scxml"
  echo "   interpreter: $(IDLE=2 $W/itrace $HERE/$d.scxml e 2>/dev/null | grep -E '^(CONFIG|CONTENT log)' | tr '\n' ';')"
  transpile $d.scxml || { echo "no C emitted"; rc=1; continue; }
  if compile_gen $d; then echo "   generated C: $($W/$d.drv e | grep -E '^(CONFIG|CONTENT log)' | tr '\n' ';')"
  else echo "   DEFECT: emitted C does not compile:"; grep -m2 "error" $W/$d.cc.log | sed 's/^/     /'; rc=1; fi
done
rm -rf $W; exit $rc
