#!/bin/bash
# exits 1 when the generated machine executes other content than the interpreter
. "$(dirname "$0")/common.sh"
build_itrace
transpile prefixed_if.scxml || { echo "no C emitted"; exit 2; }
compile_gen prefixed_if || { cat $W/prefixed_if.cc.log; echo "generated C does not compile"; exit 2; }
$W/prefixed_if.drv e e | grep -E "^CONTENT log" | sed 's/ expr=-//' > $W/gen.txt
IDLE=2 $W/itrace $HERE/prefixed_if.scxml e e 2>/dev/null | grep -E "^CONTENT log" > $W/int.txt
echo "interpreter : $(tr '\n' ' ' < $W/int.txt)"
echo "generated C : $(tr '\n' ' ' < $W/gen.txt)"
if cmp -s $W/gen.txt $W/int.txt; then echo "same executed content"; rm -rf $W; exit 0; fi
echo "DEFECT: executed content differs"; rm -rf $W; exit 1
