// interpreter-side trace: itrace doc.scxml ev1 ev2 ...
#include "uscxml/Interpreter.h"
#include "uscxml/interpreter/InterpreterMonitor.h"
#include "uscxml/util/DOM.h"
#include "uscxml/util/Predicates.h"
#include <iostream>
using namespace uscxml;
using namespace XERCESC_NS;
static Interpreter* gI;
class Mon : public InterpreterMonitor {
public:
	void beforeProcessingEvent(const std::string&, const Event& e) { std::cout << "EVENT " << e.name;
		if (!e.data.empty()) std::cout << " data=" << e.data.asJSON();
		for (auto& p : e.params) std::cout << " " << p.first << "=" << p.second.asJSON();
		std::cout << std::endl; }
	void beforeExitingState(const std::string&, const std::string& n, const DOMElement*) { std::cout << "EXIT " << n << std::endl; }
	void beforeEnteringState(const std::string&, const std::string& n, const DOMElement*) { std::cout << "ENTER " << n << std::endl; }
	void beforeExecutingContent(const std::string&, const DOMElement* e) {
		std::cout << "CONTENT " << LOCALNAME(e);
		if (HAS_ATTR(e, X("label"))) std::cout << " label=" << ATTR(e, X("label"));
		if (HAS_ATTR(e, X("event"))) std::cout << " event=" << ATTR(e, X("event"));
		std::cout << std::endl; }
	void afterMicroStep(const std::string&) { cfg(); }
	void cfg() { std::cout << "CONFIG"; for (auto s : gI->getConfiguration()) if (HAS_ATTR(s, X("id"))) std::cout << " " << ATTR(s, X("id")); std::cout << std::endl; }
};
int main(int argc, char** argv) {
	Interpreter interp = Interpreter::fromURL(argv[1]);
	gI = &interp;
	Mon mon; interp.addMonitor(&mon);
	int next = 2;
	InterpreterState s = USCXML_UNDEF;
	int idle = 0;
	while (s != USCXML_FINISHED) {
		s = interp.step(20);
		if (s == USCXML_IDLE || s == USCXML_MACROSTEPPED) {
			if (s == USCXML_IDLE) {
				if (next < argc) { Event e; e.name = argv[next++]; e.eventType = Event::EXTERNAL; interp.receive(e); idle = 0; }
				else if (++idle > (getenv("IDLE") ? atoi(getenv("IDLE")) : 3)) break;
			}
		}
	}
	std::cout << (s == USCXML_FINISHED ? "FINISHED" : "IDLE-END") << std::endl;
	return 0;
}
