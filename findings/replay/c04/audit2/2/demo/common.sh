# sourced by the run.sh files: $1 = build dir
B=$(cd "$1" && pwd)
SRC=$(grep '^CMAKE_HOME_DIRECTORY' "$B/CMakeCache.txt" | cut -d= -f2)
HERE=$(cd "$(dirname "$0")" && pwd)
W=$(mktemp -d)
build_itrace() {
  g++ -O1 -w -I$SRC/src -I$B -I$SRC/contrib/src -DXERCESC_NS=xercesc_3_2 -std=gnu++11 $HERE/itrace.cpp -o $W/itrace \
      -L$B/lib -luscxml -lxerces-c -Wl,-rpath,$B/lib || { echo "cannot build itrace"; exit 99; }
}
transpile() { # doc -> $W/<name>.c
  $B/bin/uscxml-transform -tc -i $HERE/$1 -o $W/${1%.scxml}.c 2>&1 | grep -v -E "HTTP|WebSocket|WARNING" ; test -s $W/${1%.scxml}.c
}
compile_gen() { # name -> $W/<name>.drv ; returns gcc status
  gcc -w -I$W -DGEN="\"$1.c\"" $HERE/drv.c -o $W/$1.drv 2> $W/$1.cc.log
}
