#!/bin/bash
# exits 1 when the contentexpr handed to the callbacks is not the attribute text of the document, or the C does not compile
. "$(dirname "$0")/common.sh"
build_itrace
rc=0
# (a) a backslash in <send><content expr=...>
transpile contentexpr_backslash.scxml && compile_gen contentexpr_backslash || { echo "unexpected: (a) does not build"; exit 2; }
want="'a\\\\b'"     # the attribute value in the document: 'a\\b'  (Lua: the 3 characters a \ b)
got=$($W/contentexpr_backslash.drv | sed -n 's/^CONTENT send.*contentexpr=\[\(.*\)\]$/\1/p')
echo "(a) send/content/@expr in the document : $want"
echo "    contentexpr given to exec_content_send: $got"
echo "    interpreter: $(IDLE=2 $W/itrace $HERE/contentexpr_backslash.scxml 2>/dev/null | grep '^EVENT e')   (JSON-escaped: the data is a\\b)"
[ "$got" = "$want" ] || { echo "    DEFECT: the generated machine evaluates another expression (Lua '\\b' is a backspace)"; rc=1; }
# (b) the same in <donedata>
transpile donedata_invoke.scxml && compile_gen donedata_invoke || { echo "unexpected: (b) does not build"; exit 2; }
want="'x\\\\y'"
got=$($W/donedata_invoke.drv e | sed -n 's/^RAISEDONE.*contentexpr=\([^ ]*\).*$/\1/p')
echo "(b) donedata/content/@expr in the document: $want ; given to raise_done_event: $got"
[ "$got" = "$want" ] || { echo "    DEFECT"; rc=1; }
# (c) a double quote: the emitted C does not compile
transpile contentexpr_dquote.scxml
if compile_gen contentexpr_dquote; then echo "(c) compiles"; else
  echo "(c) expr='\"abc\"': emitted C does not compile:"; grep -m2 -A1 "error" $W/contentexpr_dquote.cc.log; rc=1
  echo "    interpreter: $(IDLE=2 $W/itrace $HERE/contentexpr_dquote.scxml 2>/dev/null | grep '^EVENT e')"
fi
rm -rf $W; exit $rc
