/* generic driver for generated machines: cc -DGEN='"x.c"' drv.c ; ./a.out ev1 ev2 ... */
#include <stdio.h>
#include <string.h>
#include <stdlib.h>
#include GEN
#define QN 4096
static const char* iq[QN]; static int iqh, iqt;
static const char* eq[QN]; static int eqh, eqt;
static char** evs; static int nevs, nextev;
static int in_state(const uscxml_ctx* ctx, const char* n, size_t len) {
	size_t i; for (i = 0; i < ctx->machine->nr_states; i++) {
		const char* nm = ctx->machine->states[i].name;
		if (nm && strlen(nm) == len && strncmp(nm, n, len) == 0 && BIT_HAS(i, ctx->config)) return 1; }
	return 0; }
static int is_true(const uscxml_ctx* ctx, const char* e) {
	printf("COND %s\n", e ? e : "(null)");
	if (!e) return 0;
	if (!strcmp(e, "true")) return 1;
	if (!strcmp(e, "false")) return 0;
	if (!strncmp(e, "In('", 4)) { const char* q = strchr(e + 4, '\''); return in_state(ctx, e + 4, q - (e + 4)); }
	return 0; }
static int desc_match(const char* descs, const char* name) {
	const char* p = descs;
	while (*p) {
		while (*p == ' ') p++;
		const char* b = p; while (*p && *p != ' ') p++;
		size_t l = p - b; if (!l) break;
		if (l >= 1 && b[l-1] == '*') l--;
		if (l >= 1 && b[l-1] == '.') l--;
		if (l == 0) return 1;
		if (strlen(name) >= l && !strncmp(b, name, l) && (name[l] == 0 || name[l] == '.')) return 1;
	}
	return 0; }
static int is_matched(const uscxml_ctx* ctx, const uscxml_transition* t, const void* e) { return desc_match(t->event, (const char*)e); }
static void* deq_i(const uscxml_ctx* ctx) { if (iqh == iqt) return NULL; printf("EVENT %s\n", iq[iqh]); return (void*)iq[iqh++]; }
static void* deq_e(const uscxml_ctx* ctx) {
	if (eqh == eqt) { if (nextev < nevs) eq[eqt++] = evs[nextev++]; else return NULL; }
	printf("EVENT %s\n", eq[eqh]); return (void*)eq[eqh++]; }
static int done_ev(const uscxml_ctx* ctx, const uscxml_state* s, const uscxml_elem_donedata* d) {
	char* b = malloc(300); snprintf(b, 300, "done.state.%s", s->name); iq[iqt++] = b;
	printf("RAISEDONE %s", b);
	if (d) { printf(" content=%s contentexpr=%s", d->content ? d->content : "-", d->contentexpr ? d->contentexpr : "-");
		const uscxml_elem_param* p = d->params; while (p && USCXML_ELEM_PARAM_IS_SET(p)) { printf(" param %s=%s", p->name, p->expr ? p->expr : "-"); p++; } }
	printf("\n"); return 0; }
static int c_log(const uscxml_ctx* ctx, const char* l, const char* e) { printf("CONTENT log label=%s expr=%s\n", l ? l : "-", e ? e : "-"); return 0; }
static int c_raise(const uscxml_ctx* ctx, const char* e) { printf("CONTENT raise event=%s\n", e); iq[iqt++] = e; return 0; }
static int c_send(const uscxml_ctx* ctx, const uscxml_elem_send* s) {
	printf("CONTENT send event=%s target=%s delay=%lu content=[%s] contentexpr=[%s]", s->event ? s->event : "-", s->target ? s->target : "-", s->delay, s->content ? s->content : "-", s->contentexpr ? s->contentexpr : "-");
	const uscxml_elem_param* p = s->params; while (p && USCXML_ELEM_PARAM_IS_SET(p)) { printf(" param %s=%s", p->name, p->expr ? p->expr : "-"); p++; }
	printf("\n");
	if (s->event) { if (s->target && !strcmp(s->target, "#_internal")) iq[iqt++] = s->event; else eq[eqt++] = s->event; }
	return 0; }
static int c_assign(const uscxml_ctx* ctx, const uscxml_elem_assign* a) { printf("CONTENT assign location=%s expr=%s content=[%s]\n", a->location, a->expr ? a->expr : "-", a->content ? a->content : "-"); return 0; }
static int c_init(const uscxml_ctx* ctx, const uscxml_elem_data* d) { while (USCXML_ELEM_DATA_IS_SET(d)) { printf("DATA id=%s expr=%s content=[%s]\n", d->id, d->expr ? d->expr : "-", d->content ? d->content : "-"); d++; } return 0; }
static int c_cancel(const uscxml_ctx* ctx, const char* a, const char* b) { printf("CONTENT cancel sendid=%s expr=%s\n", a ? a : "-", b ? b : "-"); return 0; }
static int c_script(const uscxml_ctx* ctx, const char* src, const char* c) { printf("CONTENT script src=%s content=[%s]\n", src ? src : "-", c ? c : "-"); return 0; }
static int fe_n;
static int c_fi(const uscxml_ctx* ctx, const uscxml_elem_foreach* f) { printf("CONTENT foreach array=%s\n", f->array); fe_n = 2; return 0; }
static int c_fn(const uscxml_ctx* ctx, const uscxml_elem_foreach* f) { return fe_n-- > 0 ? USCXML_ERR_OK : USCXML_ERR_FOREACH_DONE; }
static int c_fd(const uscxml_ctx* ctx, const uscxml_elem_foreach* f) { return 0; }
static int c_invoke(const uscxml_ctx* ctx, const uscxml_state* s, const uscxml_elem_invoke* inv, unsigned char un) {
	printf("%s state=%s id=%s machine=%s\n", un ? "UNINVOKE" : "INVOKE", s->name ? s->name : "-", inv && inv->id ? inv->id : "-", inv && inv->machine ? inv->machine->name : "-"); return 0; }
static void cfg(const uscxml_ctx* ctx) { size_t i; printf("CONFIG"); for (i = 0; i < ctx->machine->nr_states; i++) if (BIT_HAS(i, ctx->config) && ctx->machine->states[i].name) printf(" %s", ctx->machine->states[i].name); printf("\n"); }
int main(int argc, char** argv) {
	uscxml_ctx ctx; int err, steps = 0;
	memset(&ctx, 0, sizeof(ctx));
	ctx.machine = &USCXML_MACHINE;
	evs = argv + 1; nevs = argc - 1;
	ctx.is_true = is_true; ctx.is_matched = is_matched; ctx.dequeue_internal = deq_i; ctx.dequeue_external = deq_e;
	ctx.raise_done_event = done_ev; ctx.exec_content_log = c_log; ctx.exec_content_raise = c_raise; ctx.exec_content_send = c_send;
	ctx.exec_content_assign = c_assign; ctx.exec_content_init = c_init; ctx.exec_content_cancel = c_cancel; ctx.exec_content_script = c_script;
	ctx.exec_content_foreach_init = c_fi; ctx.exec_content_foreach_next = c_fn; ctx.exec_content_foreach_done = c_fd; ctx.invoke = c_invoke;
	while ((err = uscxml_step(&ctx)) == USCXML_ERR_OK) { cfg(&ctx); if (++steps > 1000) { printf("TOO MANY STEPS\n"); return 3; } }
	printf("%s (%d)\n", err == USCXML_ERR_DONE ? "FINISHED" : err == USCXML_ERR_IDLE ? "IDLE-END" : "ERR", err);
	return 0; }
