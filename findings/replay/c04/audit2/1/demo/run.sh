#!/bin/bash
# exits 1 when the generated machine raises done.state.P although region A is not in a final state
. "$(dirname "$0")/common.sh"
build_itrace
transpile nested_final_region.scxml || { echo "no C emitted"; exit 2; }
compile_gen nested_final_region || { cat $W/nested_final_region.cc.log; exit 2; }
$W/nested_final_region.drv e1 e2 | grep -E "^(CONFIG|EVENT)" > $W/gen.txt
IDLE=2 $W/itrace $HERE/nested_final_region.scxml e1 e2 2>/dev/null | grep -E "^(CONFIG|EVENT)" > $W/int.txt
echo "--- interpreter"; cat $W/int.txt
echo "--- generated C"; cat $W/gen.txt
if grep -q "done.state.P" $W/gen.txt && ! grep -q "done.state.P" $W/int.txt; then
  echo "DEFECT: generated machine raised done.state.P (and ended in 'wrong'); A's child C is not a <final>"; rm -rf $W; exit 1
fi
cmp -s $W/gen.txt $W/int.txt && { echo "same trace"; rm -rf $W; exit 0; }
echo "DEFECT: traces differ"; rm -rf $W; exit 1
