trans=''.join('<transition event="e%d" target="n1"/>'%i for i in range(300))
child='<scxml xmlns="http://www.w3.org/2005/07/scxml" version="1.0" datamodel="native" initial="n0" name="nested"><state id="n0">%s</state><state id="n1"/></scxml>'%trans
states=''.join('<state id="t%d"/>'%i for i in range(12))
print('<scxml xmlns="http://www.w3.org/2005/07/scxml" version="1.0" datamodel="native" initial="s0" name="top"><state id="s0"><invoke type="scxml" id="child"><content>%s</content></invoke><transition event="x" target="t0"/></state>%s</scxml>'%(child,states))
