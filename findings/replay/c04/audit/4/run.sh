#!/bin/bash
# usage: run.sh <build dir>
# Builds the project's own scaffolding (test/src/test-gen-c.cpp) around the generated machine and
# compares the outcome with the interpreter (bin/test-state-pass). Exits 1 when they disagree.
set -u
B=$(cd "$1" && pwd); D=$(cd "$(dirname "$0")" && pwd)
SRC=$(grep '^CMAKE_HOME_DIRECTORY' "$B/CMakeCache.txt" | cut -d= -f2)
T=$(mktemp -d)
"$B/bin/uscxml-transform" -tc -i "$D/doc.scxml" -o "$T/machine.c" >/dev/null 2>&1 || { echo "transform failed"; exit 2; }
g++ -std=gnu++11 -w -fpermissive -I"$SRC/src" -I"$B" -I"$SRC/contrib/src" -DXERCESC_NS=xercesc_3_2 \
    -DAUTOINCLUDE_TEST -include "$T/machine.c" "$SRC/test/src/test-gen-c.cpp" -o "$T/drv" \
    -L"$B/lib" -luscxml -lxerces-c -Wl,-rpath,"$B/lib" || { echo "g++ failed"; exit 2; }
echo "=== delay column of the emitted uscxml_elem_send table"; grep -n "/\* delay  " "$T/machine.c"
echo "=== generated C machine (test-gen-c scaffolding)"
timeout 30 "$T/drv" 2>&1 | grep -v '^\[Info\]\|cannot bind' | grep -v '^Config:\|^Targets:\|^Exiting:\|^History:\|^Transitions:\|^Entering:' | tee "$T/gen.txt"
echo "=== interpreter (test-state-pass)"
timeout 30 "$B/bin/test-state-pass" "$D/doc.scxml" 2>&1 | grep '^\[Log\]' | tee "$T/int.txt"
g=$(grep -c 'Outcome: pass' "$T/gen.txt"); i=$(grep -c 'Outcome: "pass"' "$T/int.txt")
rc=0
if [ "$g" != "$i" ]; then echo "DEFECT: generated machine outcome differs from interpreted outcome (gen pass=$g, interpreter pass=$i)"; rc=1; else echo "no deviation"; fi
rm -rf "$T"; exit $rc
