/* Minimal driver for a machine emitted by uscxml-transform -tc.
 * Build:  cc -DGEN='"machine.c"' harness.c -o drv
 * Prints every callback and the configuration after each uscxml_step(). */
#include <stdio.h>
#include <string.h>
#include <stdlib.h>
#include GEN

#define QMAX 65536
static char* iq[QMAX]; static int iqh, iqt;
static char* eq[QMAX]; static int eqh, eqt;

static void* deq_int(const uscxml_ctx* ctx) {
	(void)ctx;
	if (iqh == iqt) return NULL;
	printf("  dequeue internal: %s\n", iq[iqh]);
	return iq[iqh++];
}
static void* deq_ext(const uscxml_ctx* ctx) {
	(void)ctx;
	if (eqh == eqt) return NULL;
	printf("  dequeue external: %s\n", eq[eqh]);
	return eq[eqh++];
}
static int desc_match(const char* descs, const char* name) {
	/* space separated descriptors, prefix match on token boundaries, '*' wildcard */
	const char* p = descs;
	while (*p) {
		while (*p == ' ') p++;
		const char* s = p;
		while (*p && *p != ' ') p++;
		size_t l = p - s;
		if (l == 0) break;
		if (l >= 1 && s[l-1] == '*') l--;
		if (l >= 1 && s[l-1] == '.') l--;
		if (l == 0) return 1;
		if (strncmp(s, name, l) == 0 && (name[l] == 0 || name[l] == '.')) return 1;
	}
	return 0;
}
static int is_matched(const uscxml_ctx* ctx, const uscxml_transition* t, const void* e) {
	(void)ctx;
	return desc_match(t->event, (const char*)e);
}
static int in_state(const uscxml_ctx* ctx, const char* id, size_t len) {
	size_t i;
	for (i = 0; i < ctx->machine->nr_states; i++) {
		const char* n = ctx->machine->states[i].name;
		if (n && strlen(n) == len && strncmp(n, id, len) == 0 && BIT_HAS(i, ctx->config)) return 1;
	}
	return 0;
}
static int is_true(const uscxml_ctx* ctx, const char* expr) {
	int r = 0;
	if (strcmp(expr, "true") == 0) r = 1;
	else if (strcmp(expr, "false") == 0) r = 0;
	else if (strncmp(expr, "In('", 4) == 0) {
		const char* e = strchr(expr + 4, '\'');
		r = in_state(ctx, expr + 4, e - (expr + 4));
	} else if (strncmp(expr, "!In('", 5) == 0) {
		const char* e = strchr(expr + 5, '\'');
		r = !in_state(ctx, expr + 5, e - (expr + 5));
	}
	return r;
}
static int raise_done(const uscxml_ctx* ctx, const uscxml_state* s, const uscxml_elem_donedata* d) {
	(void)ctx; (void)d;
	char* n = malloc(strlen(s->name) + 16);
	sprintf(n, "done.state.%s", s->name);
	printf("  raise done: %s\n", n);
	iq[iqt++] = n;
	return USCXML_ERR_OK;
}
static int do_log(const uscxml_ctx* ctx, const char* label, const char* expr) {
	(void)ctx;
	printf("  log: %s%s%s\n", label ? label : "", expr ? ": " : "", expr ? expr : "");
	return USCXML_ERR_OK;
}
static int do_raise(const uscxml_ctx* ctx, const char* ev) {
	(void)ctx;
	printf("  raise: %s\n", ev);
	iq[iqt++] = strdup(ev);
	return USCXML_ERR_OK;
}
static int do_send(const uscxml_ctx* ctx, const uscxml_elem_send* s) {
	(void)ctx;
	printf("  send: %s\n", s->event);
	if (s->target && strcmp(s->target, "#_internal") == 0) iq[iqt++] = strdup(s->event);
	else eq[eqt++] = strdup(s->event);
	return USCXML_ERR_OK;
}
static void print_config(const uscxml_ctx* ctx) {
	size_t i; const char* sep = "";
	printf("config: {");
	for (i = 0; i < ctx->machine->nr_states; i++) {
		if (BIT_HAS(i, ctx->config)) {
			printf("%s%s", sep, ctx->machine->states[i].name ? ctx->machine->states[i].name : (i == 0 ? "<scxml>" : "?"));
			sep = ", ";
		}
	}
	printf("}\n");
}
int main(int argc, char** argv) {
	uscxml_ctx ctx;
	int err, i, steps = 0;
	memset(&ctx, 0, sizeof(ctx));
	ctx.machine = &USCXML_MACHINE;
	ctx.dequeue_internal = deq_int;
	ctx.dequeue_external = deq_ext;
	ctx.is_matched = is_matched;
	ctx.is_true = is_true;
	ctx.raise_done_event = raise_done;
	ctx.exec_content_log = do_log;
	ctx.exec_content_raise = do_raise;
	ctx.exec_content_send = do_send;
	for (i = 1; i < argc; i++) eq[eqt++] = argv[i];
	for (;;) {
		err = uscxml_step(&ctx);
		printf("step %d -> %d ", ++steps, err);
		if (err == USCXML_ERR_OK) print_config(&ctx); else printf("\n");
		if (err != USCXML_ERR_OK || steps > 3000) break;
	}
	printf("%s\n", (ctx.flags & USCXML_CTX_FINISHED) ? "FINISHED" : (err == USCXML_ERR_IDLE ? "IDLE" : "OTHER"));
	return 0;
}
