// Drives the interpreted chart and prints the same trace format as harness.c
// usage: interp [-fast] doc.scxml ev1 ev2 ...
#include "uscxml/uscxml.h"
#include "uscxml/interpreter/InterpreterMonitor.h"
#include "uscxml/interpreter/InterpreterImpl.h"
#include "uscxml/plugins/Factory.h"
#include "uscxml/util/DOM.h"
#include "uscxml/util/Predicates.h"
#include <iostream>
using namespace uscxml;
using namespace XERCESC_NS;

class Mon : public InterpreterMonitor {
public:
	Interpreter* ip;
	void beforeProcessingEvent(const std::string&, const Event& e) {
		std::cout << "  dequeue " << (e.eventType == Event::EXTERNAL ? "external" : "internal") << ": " << e.name << std::endl;
	}
	void beforeExecutingContent(const std::string&, const DOMElement* el) {
		std::string tag = X(el->getLocalName()).str();
		if (tag == "log") std::cout << "  log: " << ATTR(el, X("label")) << std::endl;
		if (tag == "raise") std::cout << "  raise: " << ATTR(el, X("event")) << std::endl;
		if (tag == "send") std::cout << "  send: " << ATTR(el, X("event")) << std::endl;
	}
	void afterMicroStep(const std::string&) {
		std::list<DOMElement*> conf = ip->getConfiguration();
		std::cout << "config: {<scxml>"; if (conf.size() && !HAS_ATTR(conf.front(), X("id"))) conf.pop_front();
		for (auto s : conf) std::cout << ", " << ATTR(s, X("id"));
		std::cout << "}" << std::endl;
	}
};

int main(int argc, char** argv) {
	int a = 1; bool fast = false;
	if (argc > 1 && std::string(argv[1]) == "-fast") { fast = true; a++; }
	Interpreter ip = Interpreter::fromURL(argv[a++]);
	if (fast) {
		ActionLanguage al;
		al.microStepper = Factory::getInstance()->createMicroStepper("fast", static_cast<MicroStepCallbacks*>(ip.getImpl().get()));
		ip.setActionLanguage(al);
	}
	Mon mon; mon.ip = &ip;
	ip.addMonitor(&mon);
	for (; a < argc; a++) { Event e; e.name = argv[a]; e.eventType = Event::EXTERNAL; ip.receive(e); }
	InterpreterState st = USCXML_UNDEF;
	int n = 0;
	while (st != USCXML_FINISHED && st != USCXML_IDLE && n++ < 20000) {
		st = ip.step(0);
		if (st == USCXML_MACROSTEPPED) { /* keep going */ }
	}
	std::cout << (st == USCXML_FINISHED ? "FINISHED" : "IDLE") << std::endl;
	return 0;
}
