#!/bin/bash
# usage: run.sh <build dir>    exits 1 when the generated machine deviates from BOTH interpreter engines
set -u
B=$(cd "$1" && pwd); D=$(cd "$(dirname "$0")" && pwd)
SRC=$(grep '^CMAKE_HOME_DIRECTORY' "$B/CMakeCache.txt" | cut -d= -f2)
T=$(mktemp -d)
EVENTS="${EVENTS:-go fin}"
"$B/bin/uscxml-transform" -tc -i "$D/${DOC:-doc.scxml}" -o "$T/machine.c" >/dev/null 2>&1 || { echo "transform failed"; exit 2; }
cc -w -I"$T" -DGEN='"machine.c"' "$D/harness.c" -o "$T/drv" || { echo "cc failed"; exit 2; }
g++ -std=gnu++11 -w -I"$SRC/src" -I"$B" -I"$SRC/contrib/src" -DXERCESC_NS=xercesc_3_2 "$D/interp.cpp" -o "$T/interp" \
    -L"$B/lib" -luscxml -lxerces-c -Wl,-rpath,"$B/lib" || { echo "g++ failed"; exit 2; }
"$T/drv" $EVENTS | grep -v "raise done" | sed 's/^step [0-9]* -> [0-9]* //' | grep -v '^$' > "$T/gen.txt"
"$T/interp" "$D/${DOC:-doc.scxml}" $EVENTS 2>&1 | grep -v '^\[' > "$T/large.txt"
"$T/interp" -fast "$D/${DOC:-doc.scxml}" $EVENTS 2>&1 | grep -v '^\[' > "$T/fast.txt"
echo "=== generated C machine";        cat "$T/gen.txt"
echo "=== interpreter (large, default)"; cat "$T/large.txt"
echo "=== interpreter (fast)";          cat "$T/fast.txt"
rc=0
if ! cmp -s "$T/gen.txt" "$T/large.txt" && ! cmp -s "$T/gen.txt" "$T/fast.txt"; then
  echo "DEFECT: generated machine deviates from both interpreter engines"; rc=1
else
  echo "no deviation"
fi
rm -rf "$T"; exit $rc
