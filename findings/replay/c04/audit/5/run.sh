#!/bin/bash
# usage: run.sh <build dir>
# A document with three levels of nested <invoke><content><scxml>: the emitted C must compile and end in `pass`
# like the interpreter.  Exits 1 when the emitted C does not compile or the outcomes differ.
set -u
B=$(cd "$1" && pwd); D=$(cd "$(dirname "$0")" && pwd)
SRC=$(grep '^CMAKE_HOME_DIRECTORY' "$B/CMakeCache.txt" | cut -d= -f2)
T=$(mktemp -d)
"$B/bin/uscxml-transform" -tc -i "$D/doc.scxml" -o "$T/machine.c" >/dev/null 2>&1 || { echo "transform failed"; exit 2; }
echo "machines defined: $(grep -c '^const uscxml_machine _uscxml' "$T/machine.c") (three documents)"
if ! gcc -fsyntax-only -x c "$T/machine.c" 2>"$T/cc.txt"; then head -5 "$T/cc.txt"; echo "DEFECT: the emitted C does not compile"; rm -rf "$T"; exit 1; fi
g++ -std=gnu++11 -w -fpermissive -I"$SRC/src" -I"$B" -I"$SRC/contrib/src" -DXERCESC_NS=xercesc_3_2 \
    -DAUTOINCLUDE_TEST -include "$T/machine.c" "$SRC/test/src/test-gen-c.cpp" -o "$T/drv" \
    -L"$B/lib" -luscxml -lxerces-c -Wl,-rpath,"$B/lib" || { echo "g++ failed"; exit 2; }
timeout 30 "$T/drv" >/dev/null 2>&1; g=$?
timeout 30 "$B/bin/test-state-pass" "$D/doc.scxml" >/dev/null 2>&1; i=$?
rc=0
echo "generated machine exit=$g, interpreter exit=$i (0 = ended in pass)"
if [ "$g" != 0 ] || [ "$i" != 0 ]; then echo "DEFECT: outcomes differ"; rc=1; else echo "no deviation"; fi
rm -rf "$T"; exit $rc
