/* Replay for C04 R04.7: the emitted uscxml_step() with loop variables of USCXML_NR_STATES_TYPE (uint8_t) stepping a
   machine with 300 transitions (USCXML_NR_TRANS_TYPE is uint16_t).  Build: cc -I. harness.c -o harness */
#include <stdio.h>
#include <signal.h>
#include <unistd.h>
#include <string.h>
#include "gen.c"
static void* ext_event = (void*)"e299";
static int delivered = 0;
static void* deq_ext(const uscxml_ctx* ctx) { if (delivered) return NULL; delivered = 1; return ext_event; }
static int matched(const uscxml_ctx* ctx, const uscxml_transition* t, const void* e) { return t->event && strcmp(t->event, (const char*)e) == 0; }
static void on_alarm(int s) { printf("HANG: uscxml_step did not return within 3 s (loop index cannot reach %u transitions)\n", (unsigned)NESTED.nr_transitions); _exit(3); }
int main(void) {
	uscxml_ctx ctx; memset(&ctx, 0, sizeof(ctx));
	ctx.machine = &NESTED; ctx.dequeue_external = deq_ext; ctx.is_matched = matched;
	signal(SIGALRM, on_alarm); alarm(3);
	int rc = 0, n = 0;
	while ((rc = uscxml_step(&ctx)) == USCXML_ERR_OK && n++ < 20) {}
	printf("uscxml_step returned %d after %d steps\n", rc, n);
	return 0;
}
