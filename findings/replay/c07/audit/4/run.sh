#!/bin/bash
# usage: run.sh <build dir>; exits non-zero when the defect shows
B=${1:?build dir}
D=$(cd "$(dirname "$0")" && pwd)
out=$(timeout 60 "$B/bin/uscxml-browser" "$D/dirmon.scxml" 2>&1); rc=$?
echo "--- dirmon: exit status $rc"
echo "$out" | grep -v '^\[Info\]' | tail -n 4 | cut -c1-200
if [ $rc -ne 0 ]; then
	echo "DEFECT: process terminated abnormally (status $rc; 139 = SIGSEGV, 134 = SIGABRT)"
	exit 1
elif ! echo "$out" | grep -q 'Outcome: "pass"'; then
	echo "DEFECT: dirmon.scxml did not reach pass"
	exit 1
fi
exit 0
