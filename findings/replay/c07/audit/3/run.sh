#!/bin/bash
# usage: run.sh <build dir>; exits non-zero when the defect shows
B=${1:?build dir}
D=$(cd "$(dirname "$0")" && pwd)
fail=0
for doc in key_boolean key_float key_table; do
	out=$( timeout 60 "$B/bin/uscxml-browser" "$D/$doc.scxml" 2>&1 ); rc=$?
	echo "--- $doc: exit status $rc"
	echo "$out" | grep -v '^\[Info\]' | tail -n 3 | cut -c1-200
	if [ $rc -ne 0 ]; then
		echo "DEFECT: process terminated abnormally (status $rc; 134 = SIGABRT) on $doc.scxml"
		fail=1
	elif ! echo "$out" | grep -q 'Outcome: "pass"'; then
		echo "DEFECT: $doc.scxml did not reach pass"
		fail=1
	fi
done
exit $fail
