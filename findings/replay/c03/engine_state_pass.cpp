// like test/src/test-state-pass.cpp, but with the fast micro-stepper (dev-time validation of repairs to FastMicroStep)
#include "uscxml/Interpreter.h"
#include "uscxml/interpreter/InterpreterImpl.h"
#include "uscxml/interpreter/FastMicroStep.h"
#include "uscxml/interpreter/LargeMicroStep.h"
#include <iostream>
using namespace uscxml;
int main(int argc, char** argv) {
	if (argc < 3) return 2;
	bool fast = std::string(argv[1]) == "fast";
	try {
		Interpreter interpreter = Interpreter::fromURL(argv[2]);
		ActionLanguage al;
		if (fast) al.microStepper = MicroStep(std::shared_ptr<MicroStepImpl>(new FastMicroStep(interpreter.getImpl().get())));
		else al.microStepper = MicroStep(std::shared_ptr<MicroStepImpl>(new LargeMicroStep(interpreter.getImpl().get())));
		interpreter.setActionLanguage(al);
		InterpreterState state = USCXML_UNDEF;
		while (state != USCXML_FINISHED) state = interpreter.step();
		return interpreter.isInState("pass") ? 0 : 1;
	} catch (Event e) {
		std::cerr << "Thrown Event out of Interpreter: " << e;
		return 1;
	}
}
