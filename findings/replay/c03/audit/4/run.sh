#!/bin/bash
# usage: run.sh <build dir>   (exits non-zero when the defect shows)
B=$(cd "${1:?build dir}" && pwd)
S=$(cd "$B/.." && pwd)
D=$(cd "$(dirname "$0")" && pwd)
export USCXML_NOCACHE_FILES=1
T=$(mktemp -d)
g++ -O1 -std=gnu++11 -I$S/src -I$B -I$S/contrib/src -DXERCESC_NS=xercesc_3_2 $D/xengine.cpp -o $T/xengine \
    -L$B/lib -luscxml -lxerces-c -Wl,-rpath,$B/lib || exit 2
rc=0
for pair in "large large" "fast fast" "fast large" "large fast"; do
  $T/xengine $D/doc.scxml $pair 2>/dev/null || { [ "$pair" = "large large" -o "$pair" = "fast fast" ] && echo "   (unexpected: same-engine round trip failed)"; rc=1; }
done
rm -rf $T
[ $rc = 0 ] && { echo "state strings are portable between the engines - defect not present"; exit 0; }
echo "DEFECT: a state string written under one engine cannot be restored under the other"; exit 1
