// serialize() under one engine, deserialize() into a fresh interpreter of the same document under the other engine
#include "uscxml/config.h"
#include "uscxml/Interpreter.h"
#include "uscxml/interpreter/InterpreterImpl.h"
#include "uscxml/plugins/Factory.h"
#include "uscxml/util/DOM.h"
#include <iostream>
#include <fstream>
#include <sstream>
using namespace uscxml;

static Interpreter mk(const std::string& xml, const std::string& engine) {
	Interpreter interp = Interpreter::fromXML(xml, "file:///tmp/c03-xengine.scxml");
	ActionLanguage al;
	al.microStepper = MicroStep(Factory::getInstance()->createMicroStepper(engine, (MicroStepCallbacks*)interp.getImpl().get()));
	interp.setActionLanguage(al);
	return interp;
}

static std::string config(Interpreter& i) {
	std::string r;
	for (auto e : i.getConfiguration())
		r += (e->hasAttribute(X("id")) ? X(e->getAttribute(X("id"))).str() : std::string("-")) + " ";
	return r;
}

int main(int argc, char** argv) {
	std::ifstream in(argv[1]);
	std::stringstream ss;
	ss << in.rdbuf();
	std::string from = argv[2], to = argv[3];

	Interpreter a = mk(ss.str(), from);
	a.receive(Event("e1", Event::EXTERNAL));
	InterpreterState s;
	while ((s = a.step(0)) != USCXML_IDLE) {}
	std::string expected = config(a);
	std::string saved = a.serialize();
	std::cout << from << " -> " << to << ": saved in [ " << expected << "] microstepper=" << Data::fromJSON(saved)["microstepper"]["configuration"].asJSON() << std::endl;

	Interpreter b = mk(ss.str(), to);
	try {
		b.deserialize(saved);
		std::string got = config(b);
		std::cout << "   restored [ " << got << "]" << std::endl;
		if (got != expected) {
			std::cout << "   WRONG configuration restored, no error reported" << std::endl;
			return 1;
		}
		// continue: e1 must lead from b to c
		b.receive(Event("e1", Event::EXTERNAL));
		while ((s = b.step(0)) != USCXML_IDLE && s != USCXML_FINISHED) {}
		std::cout << "   after e1 [ " << config(b) << "]" << std::endl;
		return config(b) == "- c " ? 0 : 1;
	} catch (Event e) {
		std::cout << "   deserialize threw event " << e.name << std::endl;
		return 1;
	} catch (std::exception& e) {
		std::cout << "   deserialize threw std::exception: " << e.what() << std::endl;
		return 1;
	}
}
