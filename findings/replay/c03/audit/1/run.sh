#!/bin/bash
# usage: run.sh <build dir>   (exits non-zero when the defect shows)
B=$(cd "${1:?build dir}" && pwd)
S=$(cd "$B/.." && pwd)
D=$(cd "$(dirname "$0")" && pwd)
export USCXML_NOCACHE_FILES=1
T=$(mktemp -d)
g++ -O1 -std=gnu++11 -I$S/src -I$B -I$S/contrib/src -DXERCESC_NS=xercesc_3_2 $D/enginediff.cpp -o $T/enginediff \
    -L$B/lib -luscxml -lxerces-c -Wl,-rpath,$B/lib || exit 2
echo "== initial=\"b2 a2\" (legal, tokens not in document order)"
$T/enginediff -v $D/initial-order.scxml 2>/dev/null | grep -E "^(===|DIFFERENT|SAME|FINAL)"
r1=${PIPESTATUS[0]}
echo "== control: initial=\"a2 b2\" (same states, document order)"
sed 's/initial="b2 a2"/initial="a2 b2"/' $D/initial-order.scxml > $T/control.scxml
$T/enginediff -v $T/control.scxml 2>/dev/null | grep -E "^(===|DIFFERENT|SAME|FINAL)"
rm -rf $T
[ "$r1" = 0 ] && { echo "engines agree - defect not present"; exit 0; }
echo "DEFECT: the fast engine enters a1 instead of a2"; exit 1
