#!/bin/bash
# usage: run.sh <build dir>   (exits non-zero when the defect shows)
B=$(cd "${1:?build dir}" && pwd)
S=$(cd "$B/.." && pwd)
D=$(cd "$(dirname "$0")" && pwd)
export USCXML_NOCACHE_FILES=1
T=$(mktemp -d)
g++ -O1 -std=gnu++11 -I$S/src -I$B -I$S/contrib/src -DXERCESC_NS=xercesc_3_2 $D/enginediff.cpp -o $T/enginediff \
    -L$B/lib -luscxml -lxerces-c -Wl,-rpath,$B/lib || exit 2
# @save = Interpreter::serialize(), @load = Interpreter::deserialize() on the SAME interpreter object
echo "== scenario A: e1, serialize in b, e1, e2 (machine finishes), deserialize the saved state, e1"
$T/enginediff -v $D/deser.scxml e1 @save e1 e2 @load e1 2>/dev/null | grep -E "^(===|DIFFERENT|SAME|FINAL|API|STEP (IDLE|FINISHED|MACRO))"
r1=${PIPESTATUS[0]}
echo "== scenario B: serialize in a (idle), e1, deserialize, e1"
$T/enginediff -v $D/deser.scxml @save e1 @load e1 2>/dev/null | grep -E "^(===|DIFFERENT|SAME|FINAL|API|onStable|STEP (IDLE|FINISHED|MACRO))"
r2=${PIPESTATUS[0]}
echo "== control: deserialize into a fresh interpreter (@loadnew)"
$T/enginediff $D/deser.scxml e1 @save e1 e2 @loadnew e1 2>/dev/null | tail -1
rm -rf $T
[ "$r1" = 0 ] && [ "$r2" = 0 ] && { echo "engines agree - defect not present"; exit 0; }
echo "DEFECT: FastMicroStep::deserialize keeps the flags of the previous run"; exit 1
