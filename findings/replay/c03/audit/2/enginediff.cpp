// Differential driver: run the same document + event sequence on both micro-step engines
#include "uscxml/config.h"
#include "uscxml/Interpreter.h"
#include "uscxml/interpreter/InterpreterMonitor.h"
#include "uscxml/interpreter/InterpreterImpl.h"
#include "uscxml/interpreter/LoggingImpl.h"
#include "uscxml/plugins/Factory.h"
#include "uscxml/util/DOM.h"
#include <iostream>
#include <fstream>
#include <sstream>

using namespace uscxml;
using namespace XERCESC_NS;

static std::string attr(const DOMElement* e, const char* name) {
	if (!e) return "";
	X n(name);
	if (!e->hasAttribute(n)) return "-";
	return X(e->getAttribute(n)).str();
}
static std::string tag(const DOMElement* e) {
	return X(e->getLocalName() ? e->getLocalName() : e->getTagName()).str();
}

static std::string describeTrans(const DOMElement* t) {
	const DOMElement* p = (const DOMElement*)t->getParentNode();
	std::string src = tag(p) + ":" + attr(p, "id");
	if (tag(p) == "initial" || (tag(p) == "history" && attr(p, "id") == "-")) {
		src += "^" + attr((const DOMElement*)p->getParentNode(), "id");
	}
	return src + " -[" + attr(t, "event") + "|" + attr(t, "cond") + "|" + attr(t, "type") + "]-> " + attr(t, "target") + " #" + attr(t, "n");
}

class TraceLogger : public LoggerImpl {
public:
	std::ostringstream* out;
	TraceLogger(std::ostringstream* o) : out(o) {}
	virtual std::shared_ptr<LoggerImpl> create() {
		return std::shared_ptr<LoggerImpl>(new TraceLogger(out));
	}
	virtual void log(LogSeverity severity, const Event& event) {
		*out << "LOG event " << event.name << "\n";
	}
	virtual void log(LogSeverity severity, const Data& data) {
		*out << "LOG data " << data.asJSON() << "\n";
	}
	virtual void log(LogSeverity severity, const std::string& message) {
		if (severity == USCXML_VERBATIM || severity == USCXML_LOG)
			*out << "LOG msg " << message << "\n";
	}
};

class TraceMonitor : public InterpreterMonitor {
public:
	std::ostringstream& out;
	TraceMonitor(std::ostringstream& o) : out(o) {}

	void beforeProcessingEvent(const std::string&, const Event& event) {
		out << "EVENT " << event.name << " type=" << event.eventType;
		if (!event.data.empty()) out << " data=" << event.data.asJSON();
		out << "\n";
	}
	void beforeMicroStep(const std::string&) {
		out << "beforeMicroStep\n";
	}
	void beforeExitingState(const std::string&, const std::string& n, const DOMElement* s) {
		out << " exit> " << n << "\n";
	}
	void afterExitingState(const std::string&, const std::string& n, const DOMElement* s) {
		out << " exit< " << n << "\n";
	}
	void beforeExecutingContent(const std::string&, const DOMElement* e) {
		out << "   exec " << tag(e) << " " << attr(e, "event") << attr(e, "label") << attr(e, "expr") << "\n";
	}
	void beforeUninvoking(const std::string&, const DOMElement* e, const std::string& id) {
		out << " uninvoke> " << attr(e, "id") << "\n";
	}
	void afterUninvoking(const std::string&, const DOMElement* e, const std::string& id) {
		out << " uninvoke< " << attr(e, "id") << "\n";
	}
	void beforeTakingTransition(const std::string&, const DOMElement* t) {
		out << " trans> " << describeTrans(t) << "\n";
	}
	void afterTakingTransition(const std::string&, const DOMElement* t) {
		out << " trans< " << describeTrans(t) << "\n";
	}
	void beforeEnteringState(const std::string&, const std::string& n, const DOMElement* s) {
		out << " enter> " << n << "\n";
	}
	void afterEnteringState(const std::string&, const std::string& n, const DOMElement* s) {
		out << " enter< " << n << "\n";
	}
	void beforeInvoking(const std::string&, const DOMElement* e, const std::string& id) {
		out << " invoke> " << attr(e, "id") << "\n";
	}
	void afterInvoking(const std::string&, const DOMElement* e, const std::string& id) {
		out << " invoke< " << attr(e, "id") << "\n";
	}
	void afterMicroStep(const std::string&) {
		out << "afterMicroStep\n";
	}
	void onStableConfiguration(const std::string&) {
		out << "onStableConfiguration\n";
	}
	void beforeCompletion(const std::string&) {
		out << "beforeCompletion\n";
	}
	void afterCompletion(const std::string&) {
		out << "afterCompletion\n";
	}
	void reportIssue(const std::string&, const InterpreterIssue& issue) {
		out << "ISSUE " << issue.message << "\n";
	}
};

static const char* stateName(InterpreterState s) {
	switch (s) {
	case USCXML_FINISHED: return "FINISHED";
	case USCXML_UNDEF: return "UNDEF";
	case USCXML_IDLE: return "IDLE";
	case USCXML_INITIALIZED: return "INITIALIZED";
	case USCXML_INSTANTIATED: return "INSTANTIATED";
	case USCXML_MICROSTEPPED: return "MICROSTEPPED";
	case USCXML_MACROSTEPPED: return "MACROSTEPPED";
	case USCXML_CANCELLED: return "CANCELLED";
	}
	return "?";
}

static std::string config(Interpreter& interp) {
	std::string r;
	for (auto e : interp.getConfiguration()) {
		r += attr(e, "id") + " ";
	}
	return r;
}

static std::string run(const std::string& xml, const std::string& engine, const std::vector<std::string>& events, int maxSteps) {
	std::ostringstream out;
	try {
		Interpreter interp = Interpreter::fromXML(xml, "file:///tmp/c03-demo.scxml");
		ActionLanguage al;
		al.microStepper = MicroStep(Factory::getInstance()->createMicroStepper(engine, (MicroStepCallbacks*)interp.getImpl().get()));
		al.logger = Logger(std::shared_ptr<LoggerImpl>(new TraceLogger(&out)));
		interp.setActionLanguage(al);
		TraceMonitor mon(out);
		interp.addMonitor(&mon);

		size_t nextEvent = 0;
		std::string saved;
		bool capped = true;
		for (int steps = 0; steps < maxSteps; steps++) {
			InterpreterState s = interp.step(0);
			out << "STEP " << stateName(s);
			if (s == USCXML_MACROSTEPPED || s == USCXML_IDLE || s == USCXML_FINISHED)
				out << " config: " << config(interp);
			out << "\n";
			if (s == USCXML_FINISHED && !(nextEvent < events.size() && events[nextEvent][0] == '@')) {
				capped = false;
				break;
			}
			if (s == USCXML_IDLE || s == USCXML_FINISHED) {
NEXT:
				if (nextEvent >= events.size()) {
					capped = false;
					break;
				}
				std::string ev = events[nextEvent++];
				if (ev == "@cancel") {
					out << "API cancel\n";
					interp.cancel();
				} else if (ev == "@reset") {
					out << "API reset\n";
					interp.reset();
				} else if (ev == "@save") {
					saved = interp.serialize();
					out << "API save\n";
					goto NEXT;
				} else if (ev == "@loadnew") {
					out << "API loadnew\n";
					interp = Interpreter::fromXML(xml, "file:///tmp/c03-demo.scxml");
					ActionLanguage al2;
					al2.microStepper = MicroStep(Factory::getInstance()->createMicroStepper(engine, (MicroStepCallbacks*)interp.getImpl().get()));
					al2.logger = Logger(std::shared_ptr<LoggerImpl>(new TraceLogger(&out)));
					interp.setActionLanguage(al2);
					interp.addMonitor(&mon);
					interp.deserialize(saved);
				} else if (ev == "@load") {
					out << "API load\n";
					interp.deserialize(saved);
				} else if (ev.substr(0, 4) == "@in:") {
					out << "API isInState " << ev.substr(4) << " = " << interp.isInState(ev.substr(4)) << "\n";
					goto NEXT;
				} else {
					Event e(ev, Event::EXTERNAL);
					interp.receive(e);
				}
			}
		}
		if (capped) out << "CAPPED\n"; else
		out << "FINAL config: " << config(interp) << "\n";
	} catch (Event e) {
		out << "EXCEPTION event " << e.name << "\n";
	} catch (std::exception& e) {
		out << "EXCEPTION " << e.what() << "\n";
	} catch (...) {
		out << "EXCEPTION unknown\n";
	}
	return out.str();
}

int main(int argc, char** argv) {
	if (argc < 2) {
		std::cerr << "usage: diff [-e engine] [-v] file.scxml [events...]" << std::endl;
		return 2;
	}
	int a = 1;
	std::string only;
	bool verbose = false;
	while (a < argc && argv[a][0] == '-') {
		if (std::string(argv[a]) == "-e") {
			only = argv[a + 1];
			a += 2;
		} else if (std::string(argv[a]) == "-v") {
			verbose = true;
			a++;
		} else break;
	}
	std::ifstream in(argv[a++]);
	std::stringstream ss;
	ss << in.rdbuf();
	std::vector<std::string> events;
	for (; a < argc; a++) events.push_back(argv[a]);

	if (only.size()) {
		std::cout << run(ss.str(), only, events, 400);
		return 0;
	}
	std::string l = run(ss.str(), "large", events, 400);
	std::string f = run(ss.str(), "fast", events, 400);
	if (getenv("NODONE")) {
		for (int k = 0; k < 2; k++) {
			std::string& t = (k == 0 ? l : f);
			std::istringstream is(t);
			std::string line, res;
			while (std::getline(is, line)) {
				if (line.find("EVENT done.state.") == 0) continue;
				if (line == "STEP MICROSTEPPED") continue;
				res += line + "\n";
			}
			t = res;
		}
	}
	if (l.find("CAPPED\n") != std::string::npos && f.find("CAPPED\n") != std::string::npos) {
		std::vector<std::string> ll, fl;
		std::string line;
		std::istringstream il(l), ifs(f);
		while (std::getline(il, line)) ll.push_back(line);
		while (std::getline(ifs, line)) fl.push_back(line);
		size_t n = std::min(ll.size(), fl.size()) - 1;
		l = ""; f = "";
		for (size_t i = 0; i < n; i++) { l += ll[i] + "\n"; f += fl[i] + "\n"; }
	}
	if (l == f) {
		if (verbose) std::cout << l;
		std::cout << "SAME" << std::endl;
		return 0;
	}
	std::cout << "DIFFERENT" << std::endl;
	if (getenv("TRACE_DIR")) {
		std::ofstream(std::string(getenv("TRACE_DIR")) + "/last.large") << l;
		std::ofstream(std::string(getenv("TRACE_DIR")) + "/last.fast") << f;
	}
	if (verbose) {
		std::cout << "=== large ===\n" << l << "=== fast ===\n" << f;
	}
	return 1;
}
