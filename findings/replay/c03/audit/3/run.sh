#!/bin/bash
# usage: run.sh <build dir>   (exits non-zero when the defect shows)
B=$(cd "${1:?build dir}" && pwd)
S=$(cd "$B/.." && pwd)
D=$(cd "$(dirname "$0")" && pwd)
export USCXML_NOCACHE_FILES=1
T=$(mktemp -d)
g++ -O1 -std=gnu++11 -I$S/src -I$B -I$S/contrib/src -DXERCESC_NS=xercesc_3_2 $D/enginediff.cpp -o $T/enginediff \
    -L$B/lib -luscxml -lxerces-c -Wl,-rpath,$B/lib || exit 2
rc=0
for n in 1 2 3; do
  echo "== parallel with $n region(s), every region reaches its final state on event e"
  $T/enginediff -v $D/par$n.scxml e 2>/dev/null | grep -E "^(===|DIFFERENT|SAME|FINAL|EVENT done)"
  [ "${PIPESTATUS[0]}" = 0 ] || rc=1
done
rm -rf $T
[ $rc = 0 ] && { echo "engines agree - defect not present"; exit 0; }
echo "DEFECT: the fast engine never raises done.state.p for an odd number of regions"; exit 1
