#!/bin/bash
# usage: confirm_seed.sh <worktree> <OUT subdir>   -- confirms a seeded change in its scratch worktree:
#   with patch: builds, demo fails, 353 stable tests pass; without patch: demo passes.
WT=$1; N=$2; O=$WT/OUT/$N
cd $WT || exit 2
git checkout -q -- . ; git apply $O/patch.diff || { echo "CONFIRM $WT/$N: patch does not apply"; exit 2; }
cmake --build _build > /tmp/confirm_build.log 2>&1 || { echo "CONFIRM $WT/$N: build failed with patch"; git checkout -q -- .; exit 2; }
( cd $O/demo && timeout 900 bash ./run.sh $WT/_build > $O/confirm_with.log 2>&1 ); with=$?
python3 /tmp/tools/baseline.py $WT/_build > $O/confirm_baseline.log 2>&1; base=$?
git checkout -q -- .
cmake --build _build > /tmp/confirm_build.log 2>&1
( cd $O/demo && timeout 900 bash ./run.sh $WT/_build > $O/confirm_without.log 2>&1 ); without=$?
echo "CONFIRM $WT/$N: demo_with_patch_rc=$with (want !=0) baseline_rc=$base (want 0) demo_without_patch_rc=$without (want 0) :: $(tail -1 $O/confirm_baseline.log)"
