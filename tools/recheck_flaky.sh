#!/bin/bash
# usage: recheck_flaky.sh <worktree> <OUT subdir> <ctest name regex...>
# Re-runs tests that were missing from a loaded full run, one at a time, with the seeded patch applied (3 attempts each).
WT=$1; N=$2; shift 2
cd $WT || exit 2
git checkout -q -- . ; git apply $WT/OUT/$N/patch.diff || exit 2
cmake --build _build > /tmp/recheck_build.log 2>&1 || { echo "build failed"; git checkout -q -- .; exit 2; }
rc=0
for t in "$@"; do
  ok=0
  for i in 1 2 3; do
    if ctest --test-dir _build -R "^$t\$" --timeout 900 > /tmp/recheck_one.log 2>&1 && grep -q "100% tests passed" /tmp/recheck_one.log; then ok=1; break; fi
  done
  echo "RECHECK $WT/$N $t: $([ $ok = 1 ] && echo pass || echo FAIL)"
  [ $ok = 1 ] || rc=1
done
git checkout -q -- .
exit $rc
