#!/usr/bin/env python3
"""keep_seed.py <worktree OUT dir> <seed name> <property> <base commit> "<needs>" "<caught by>"  -- stores a confirmed seeded change under /verif/seeded"""
import json, os, shutil, subprocess, sys
out, name, prop, base, needs, caught = sys.argv[1:7]
dst = os.path.join('/verif/seeded', name)
os.makedirs(dst, exist_ok=True)
if not os.path.exists(os.path.join(dst, 'patch.diff')):
    shutil.copy(os.path.join(out, 'patch.diff'), os.path.join(dst, 'patch.diff'))
else:
    shutil.copy(os.path.join(out, 'patch.diff'), os.path.join(dst, 'patch_at_%s.diff' % base))
if os.path.isdir(os.path.join(out, 'demo')):
    shutil.rmtree(os.path.join(dst, 'demo'), ignore_errors=True)
    shutil.copytree(os.path.join(out, 'demo'), os.path.join(dst, 'demo'))
for r_, _, fs in os.walk(os.path.join(dst, 'demo')):
    for f_ in fs:
        fp = os.path.join(r_, f_)
        if open(fp, 'rb').read(4) == b'\x7fELF':      # built drivers are rebuilt by run.sh
            os.remove(fp)
if os.path.exists(os.path.join(out, 'notes.md')):
    shutil.copy(os.path.join(out, 'notes.md'), os.path.join(dst, 'notes.md'))
logs = {}
for l in ('confirm_with.log', 'confirm_without.log', 'confirm_baseline.log'):
    p = os.path.join(out, l)
    if os.path.exists(p):
        logs[l] = open(p, errors='replace').read()[-600:]
json.dump({'property': prop, 'breaks': open(os.path.join(out, 'notes.md'), errors='replace').read()[:600] if os.path.exists(os.path.join(out, 'notes.md')) else '',
           'needs_to_manifest': needs, 'written_by': 'independent sub-agent given only the property text and a scratch worktree',
           'base_commit_of_patch': base,
           'confirmed': 'tools/confirm_seed.sh in the scratch worktree: with patch -> builds, demo/run.sh exits non-zero, 353 stable tests pass; without patch -> demo/run.sh exits 0',
           'confirm_logs_tail': logs, 'detected_by': caught}, open(os.path.join(dst, 'meta.json'), 'w'), indent=1)
print('kept', dst)
