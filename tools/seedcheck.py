#!/usr/bin/env python3
"""seedcheck.py [--prop Cxx] [--jobs N] [--json out]   -- checker self-test on the stored seeded changes.

For every /verif/seeded/<name>/ whose property matches: copy /repo's *current working tree* (sources only) to a scratch
directory under $TMPDIR, apply patch.diff there, run the property's quick check against the copy (VERIF_REPO) and expect
exit 1 with a VIOLATION line.  The copy is removed afterwards.  Nothing here runs uscxml; it is the same static checker
pointed at a modified tree.  A patch that no longer applies to the current tree is reported as 'skipped', not as a miss.
"""
import argparse, json, os, shutil, subprocess, sys, tempfile
from concurrent.futures import ThreadPoolExecutor
V = os.path.dirname(os.path.dirname(os.path.abspath(__file__)))
REPO = os.environ.get('VERIF_REPO', '/repo')


def one(name, tmp, corpus='seeded'):
    sd = os.path.join(V, corpus, name)
    meta = json.load(open(os.path.join(sd, 'meta.json')))
    prop = meta['property']
    wt = os.path.join(tmp, name)
    res = {'seed': name, 'property': prop}
    try:
        subprocess.run(['rsync', '-a', '--exclude', '_build', '--exclude', '.git', '--exclude', 'OUT', REPO + '/', wt + '/'], check=True)
        r = subprocess.run(['git', 'apply', '--whitespace=nowarn', os.path.join(sd, 'patch.diff')], cwd=wt, capture_output=True, text=True)
        if r.returncode != 0:
            r = subprocess.run(['patch', '-p1', '-s', '-f', '-i', os.path.join(sd, 'patch.diff')], cwd=wt, capture_output=True, text=True)
        if r.returncode != 0:
            res.update(status='skipped', why='patch does not apply to the current tree: ' + (r.stderr or r.stdout)[-200:])
            return res
        env = dict(os.environ, VERIF_REPO=wt, VERIF_EVIDENCE_DIR=os.path.join(wt, '.ev'), VERIF_OUT_DIR=os.path.join(wt, '.out'))
        r = subprocess.run([os.path.join(V, 'check'), prop, '--tier', 'quick'], env=env, capture_output=True, text=True)
        keys = []
        for l in r.stdout.splitlines():
            if l.startswith('  R') and ' at ' in l:
                keys.append(l.strip().split(' at ')[0])
        res.update(rc=r.returncode, violations=keys[:8],
                   status='detected' if r.returncode == 1 and 'VIOLATION property=' + prop in r.stdout else ('broken' if r.returncode == 2 else 'MISSED'))
        if meta.get('expected_rule') == 'NONE':       # behaviour-preserving edit: the check must stay silent
            res['status'] = 'silent' if r.returncode == 0 else 'FALSE-ALARM' if r.returncode == 1 else 'broken'
            return res
        exp = meta.get('expected_rule')
        if exp and res['status'] == 'detected' and not any(k.startswith(exp) for k in keys):
            res['status'] = 'OTHER-RULE'
            res['why'] = 'expected %s' % exp
        if r.returncode == 2:
            res['why'] = [l for l in r.stdout.splitlines() if l.startswith('ANALYSIS-BROKEN')][:1]
        return res
    finally:
        shutil.rmtree(wt, ignore_errors=True)


def run(prop=None, jobs=4, corpus='seeded'):
    if not os.path.isdir(os.path.join(V, corpus)):
        return []
    names = sorted(n for n in os.listdir(os.path.join(V, corpus)) if os.path.exists(os.path.join(V, corpus, n, 'meta.json')))
    if prop:
        names = [n for n in names if json.load(open(os.path.join(V, corpus, n, 'meta.json')))['property'] == prop]
    tmp = tempfile.mkdtemp(prefix='verif_seed_', dir=os.environ.get('TMPDIR') or None)
    try:
        with ThreadPoolExecutor(jobs) as ex:
            return list(ex.map(lambda n: one(n, tmp, corpus), names))
    finally:
        shutil.rmtree(tmp, ignore_errors=True)


if __name__ == '__main__':
    ap = argparse.ArgumentParser()
    ap.add_argument('--prop')
    ap.add_argument('--jobs', type=int, default=4)
    ap.add_argument('--json')
    ap.add_argument('--corpus', default='seeded', choices=['seeded', 'mutants'])
    ap.add_argument('--update-meta', action='store_true', help='record the violated rule instances in seeded/<name>/meta.json')
    a = ap.parse_args()
    out = run(a.prop, a.jobs, a.corpus)
    for r in out:
        print('%-8s %-4s %-9s %s' % (r['seed'], r['property'], r['status'], '; '.join(r.get('violations', [])) or r.get('why', '')))
    if a.update_meta:
        for r in out:
            if r['status'] == 'detected':
                mp = os.path.join(V, a.corpus, r['seed'], 'meta.json')
                m = json.load(open(mp))
                m['detected_by'] = r['violations']
                json.dump(m, open(mp, 'w'), indent=1)
    if a.json:
        json.dump(out, open(a.json, 'w'), indent=1)
    sys.exit(0 if all(r['status'] in ('detected', 'skipped', 'silent') for r in out) else 3)
