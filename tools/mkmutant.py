#!/usr/bin/env python3
"""mkmutant.py <property> <name> <repo-relative file> <expected rule> <note>   (old text on stdin up to a line '====', then new text)
Creates /verif/mutants/<property>-<name>/{patch.diff,meta.json}: a hand-written one-instance regression used by the
checker self-test (tools/seedcheck.py --corpus mutants).  The patch is made against /repo's current tree."""
import difflib, json, os, sys
prop, name, rel, rule, note = sys.argv[1:6]
old, new = sys.stdin.read().split('\n====\n')
new = new.rstrip('\n')
old = old.rstrip('\n')
src = open(os.path.join('/repo', rel)).read()
if src.count(old) != 1:
    sys.exit('old text occurs %d times in %s' % (src.count(old), rel))
dst = src.replace(old, new)
diff = ''.join(difflib.unified_diff(src.splitlines(True), dst.splitlines(True), 'a/' + rel, 'b/' + rel))
d = os.path.join(os.path.dirname(os.path.dirname(os.path.abspath(__file__))), 'mutants', '%s-%s' % (prop, name))
os.makedirs(d, exist_ok=True)
open(os.path.join(d, 'patch.diff'), 'w').write(diff)
json.dump({'property': prop, 'expected_rule': rule, 'breaks': note, 'written_by': 'hand (one rule instance broken; compiles: the fact extractor parses the mutated TU with the build flags)'},
          open(os.path.join(d, 'meta.json'), 'w'), indent=1)
print('wrote', d)
