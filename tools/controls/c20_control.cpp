// Positive control for C20's zero-expected rules: each construct below must be matched on every run.
#include <algorithm>
#include <functional>
#include <iterator>
#include <list>
#include <map>
#include <vector>
#include <set>
#include <sstream>
#include <string>
#include <unistd.h>
namespace control {
struct Node { int x; };
std::string streamsPointer(Node* n) { std::stringstream ss; ss << n; return ss.str(); }
long castsPointer(Node* n) { return (long)n; }
std::string iteratesByAddress(std::map<Node*, int>& m) {
	std::stringstream ss;
	for (auto& kv : m) { ss << kv.second; }
	for (std::map<Node*, int>::iterator it = m.begin(); it != m.end(); ++it) { ss << it->second; }
	return ss.str();
}
void ordersByAddress(std::list<Node*>& a, std::list<Node*>& b, std::vector<Node*>& v) { a.merge(b); a.sort(); std::sort(v.begin(), v.end()); }
bool comparesAddresses(Node* a, Node* b) { return a < b; }
bool lessOnAddresses(Node* a, Node* b) { return std::less<Node*>()(a, b); }
void setAlgebraOnAddresses(std::vector<Node*>& a, std::vector<Node*>& b, std::vector<Node*>& out) { std::set_difference(a.begin(), a.end(), b.begin(), b.end(), std::back_inserter(out)); }
int usesPid() { return (int)getpid(); }
}
