// uscxml-facts: clang frontend plugin exporting compact AST + CFG facts as JSON
#include "clang/AST/AST.h"
#include "clang/AST/ASTConsumer.h"
#include "clang/AST/Mangle.h"
#include "clang/AST/ParentMapContext.h"
#include "clang/AST/RecursiveASTVisitor.h"
#include "clang/Analysis/CFG.h"
#include "clang/Frontend/CompilerInstance.h"
#include "clang/Frontend/FrontendPluginRegistry.h"
#include "clang/Lex/Lexer.h"
#include "llvm/Support/JSON.h"
#include "llvm/Support/raw_ostream.h"
#include <map>
#include <set>
using namespace clang;
namespace {

static std::vector<std::string> gScope; // path prefixes in scope
static std::string gOut;
static std::string gRoot = "/repo/";

struct Exporter {
  ASTContext &C; SourceManager &SM; std::unique_ptr<MangleContext> MC;
  PrintingPolicy PP;
  Exporter(ASTContext &C) : C(C), SM(C.getSourceManager()), MC(C.createMangleContext()), PP(C.getLangOpts()) {
    PP.SuppressTagKeyword = true; PP.FullyQualifiedName = true; PP.SuppressScope = false;
  }
  bool inScope(SourceLocation L) {
    if (L.isInvalid()) return false;
    SourceLocation E = SM.getExpansionLoc(L);
    StringRef fn = SM.getFilename(E);
    if (fn.endswith(".inc")) return false;
    for (auto &p : gScope) if (fn.startswith(p)) return true;
    return false;
  }
  std::string mangled(const FunctionDecl *F) {
    std::string s; llvm::raw_string_ostream os(s);
    if (auto *CD = dyn_cast<CXXConstructorDecl>(F)) MC->mangleName(GlobalDecl(CD, Ctor_Complete), os);
    else if (auto *DD = dyn_cast<CXXDestructorDecl>(F)) MC->mangleName(GlobalDecl(DD, Dtor_Complete), os);
    else if (MC->shouldMangleDeclName(F)) MC->mangleName(GlobalDecl(F), os);
    else os << F->getNameAsString();
    return os.str();
  }
  std::string tyStr(QualType T) { return T.isNull() ? std::string("") : T.getAsString(PP); }
  llvm::json::Array locArr(SourceLocation L) {
    SourceLocation E = SM.getExpansionLoc(L);
    return llvm::json::Array{SM.getFilename(E).str(), (int64_t)SM.getExpansionLineNumber(E), (int64_t)SM.getExpansionColumnNumber(E)};
  }
  llvm::json::Array macroStack(SourceLocation L) {
    llvm::json::Array a;
    int guard = 0;
    while (L.isMacroID() && guard++ < 16) {
      StringRef name = Lexer::getImmediateMacroName(L, SM, C.getLangOpts());
      auto ER = SM.getImmediateExpansionRange(L);
      SourceLocation EL = SM.getExpansionLoc(ER.getBegin());
      a.push_back(llvm::json::Array{name.str(), (int64_t)SM.getExpansionLineNumber(EL), (int64_t)SM.getExpansionColumnNumber(EL)});
      if (SM.isMacroArgExpansion(L)) L = SM.getImmediateSpellingLoc(L); else L = ER.getBegin();
      // climb to the outer expansion
      if (!L.isMacroID()) break;
    }
    return a;
  }

  // ---- statement tree ----
  std::map<const Stmt*, int> ids; int nextId = 0;
  std::map<const Decl*, int> declIds; int nextDecl = 0;
  int declId(const Decl* D) { auto it = declIds.find(D); if (it != declIds.end()) return it->second; return declIds[D] = nextDecl++; }

  llvm::json::Value declRef(const ValueDecl *D) {
    llvm::json::Object o;
    o["name"] = D->getNameAsString();
    o["dk"] = D->getDeclKindName();
    if (auto *F = dyn_cast<FunctionDecl>(D)) { o["q"] = F->getQualifiedNameAsString(); o["m"] = mangled(F); }
    else if (auto *FD = dyn_cast<FieldDecl>(D)) { o["rec"] = FD->getParent()->getQualifiedNameAsString(); }
    else if (auto *VD = dyn_cast<VarDecl>(D)) {
      if (VD->isLocalVarDeclOrParm()) o["lid"] = declId(VD); else o["q"] = VD->getQualifiedNameAsString();
    } else if (auto *EC = dyn_cast<EnumConstantDecl>(D)) { o["q"] = EC->getQualifiedNameAsString(); o["val"] = (int64_t)EC->getInitVal().getExtValue(); }
    o["t"] = tyStr(D->getType());
    return std::move(o);
  }
  llvm::json::Value calleeOf(const FunctionDecl *F, bool viaVirtual) {
    llvm::json::Object o; o["q"] = F->getQualifiedNameAsString(); o["m"] = mangled(F);
    if (auto *M = dyn_cast<CXXMethodDecl>(F)) { o["virt"] = M->isVirtual() && viaVirtual; o["rec"] = M->getParent()->getQualifiedNameAsString(); }
    o["ext"] = !inScope(F->getLocation());
    if (auto *FPT = F->getType()->getAs<FunctionProtoType>()) o["noexcept"] = FPT->isNothrow();
    return std::move(o);
  }

  llvm::json::Value stmt(const Stmt *S) {
    if (!S) return nullptr;
    llvm::json::Object o;
    int id = nextId++; ids[S] = id;
    o["id"] = id; o["k"] = S->getStmtClassName();
    o["loc"] = locArr(S->getBeginLoc());
    { SourceLocation EL = Lexer::getLocForEndOfToken(SM.getExpansionLoc(S->getEndLoc()), 0, SM, C.getLangOpts());
      if (S->getEndLoc().isMacroID()) EL = Lexer::getLocForEndOfToken(SM.getExpansionRange(S->getEndLoc()).getEnd(), 0, SM, C.getLangOpts());
      if (EL.isValid()) o["end"] = llvm::json::Array{(int64_t)SM.getExpansionLineNumber(EL), (int64_t)SM.getExpansionColumnNumber(EL)}; }
    if (S->getBeginLoc().isMacroID()) o["mac"] = macroStack(S->getBeginLoc());
    if (auto *E = dyn_cast<Expr>(S)) o["t"] = tyStr(E->getType());
    if (auto *DS = dyn_cast<DeclStmt>(S)) {
      llvm::json::Array ds;
      for (auto *D : DS->decls()) if (auto *VD = dyn_cast<VarDecl>(D)) {
        llvm::json::Object v; v["name"] = VD->getNameAsString(); v["lid"] = declId(VD); v["t"] = tyStr(VD->getType());
        if (VD->hasInit()) v["init"] = stmt(VD->getInit());
        ds.push_back(std::move(v));
      }
      o["decls"] = std::move(ds);
      return std::move(o);
    }
    if (auto *DR = dyn_cast<DeclRefExpr>(S)) o["ref"] = declRef(DR->getDecl());
    if (auto *ME = dyn_cast<MemberExpr>(S)) { o["ref"] = declRef(ME->getMemberDecl()); o["arrow"] = ME->isArrow(); }
    if (auto *CE = dyn_cast<CallExpr>(S)) {
      if (auto *F = CE->getDirectCallee()) {
        bool viaVirt = false;
        if (auto *MC = dyn_cast<CXXMemberCallExpr>(CE)) { if (auto *ME = dyn_cast<MemberExpr>(MC->getCallee()->IgnoreParenImpCasts())) viaVirt = !ME->hasQualifier(); }
        o["callee"] = calleeOf(F, viaVirt);
      }
    }
    if (auto *CE = dyn_cast<CXXConstructExpr>(S)) { o["callee"] = calleeOf(CE->getConstructor(), false); }
    if (auto *SL = dyn_cast<clang::StringLiteral>(S)) { if (SL->getCharByteWidth() == 1) o["str"] = SL->getString().str(); }
    if (auto *IL = dyn_cast<IntegerLiteral>(S)) o["int"] = (int64_t)IL->getValue().getLimitedValue();
    if (auto *CL = dyn_cast<CharacterLiteral>(S)) o["int"] = (int64_t)CL->getValue();
    if (auto *BL = dyn_cast<CXXBoolLiteralExpr>(S)) o["int"] = (int64_t)BL->getValue();
    if (auto *BO = dyn_cast<BinaryOperator>(S)) o["op"] = BO->getOpcodeStr().str();
    if (auto *UO = dyn_cast<UnaryOperator>(S)) { o["op"] = UnaryOperator::getOpcodeStr(UO->getOpcode()).str(); o["postfix"] = UO->isPostfix(); }
    if (auto *OC = dyn_cast<CXXOperatorCallExpr>(S)) o["op"] = getOperatorSpelling(OC->getOperator());
    if (auto *NE = dyn_cast<CXXNewExpr>(S)) { o["newt"] = tyStr(NE->getAllocatedType()); o["arr"] = NE->isArray(); }
    if (auto *DE = dyn_cast<CXXDeleteExpr>(S)) { o["arr"] = DE->isArrayForm(); }
    if (auto *FL = dyn_cast<FloatingLiteral>(S)) { o["flt"] = FL->getValueAsApproximateDouble(); }
    if (auto *CA = dyn_cast<ExplicitCastExpr>(S)) { o["castto"] = tyStr(CA->getTypeAsWritten()); }
    if (auto *ICE = dyn_cast<CastExpr>(S)) { o["ck"] = ICE->getCastKindName(); }
    if (auto *GS = dyn_cast<GotoStmt>(S)) o["label"] = GS->getLabel()->getNameAsString();
    if (auto *LS = dyn_cast<LabelStmt>(S)) o["label"] = LS->getDecl()->getNameAsString();
    if (auto *CS = dyn_cast<CXXCatchStmt>(S)) { o["caught"] = CS->getExceptionDecl() ? tyStr(CS->getCaughtType()) : std::string("..."); if (CS->getExceptionDecl()) o["lid"] = declId(CS->getExceptionDecl()); }
    if (auto *TE = dyn_cast<CXXThrowExpr>(S)) { if (TE->getSubExpr()) o["thrown"] = tyStr(TE->getSubExpr()->IgnoreParenImpCasts()->getType().getNonReferenceType().getUnqualifiedType()); else o["thrown"] = "<rethrow>"; }
    if (auto *CC = dyn_cast<CaseStmt>(S)) { Expr::EvalResult R; if (CC->getLHS()->EvaluateAsInt(R, C)) o["int"] = (int64_t)R.Val.getInt().getExtValue(); }
    if (auto *FR = dyn_cast<CXXForRangeStmt>(S)) {
      // expose loop variable and range init explicitly
      llvm::json::Object fr; if (FR->getLoopVariable()) { fr["var"] = FR->getLoopVariable()->getNameAsString(); fr["lid"] = declId(FR->getLoopVariable()); }
      o["range"] = std::move(fr);
    }
    if (auto *EE = dyn_cast<Expr>(S)) { if (!isa<clang::StringLiteral>(S) && !isa<IntegerLiteral>(S)) { Expr::EvalResult R; if (!EE->isValueDependent() && EE->getType()->isIntegralOrEnumerationType() && EE->EvaluateAsInt(R, C)) o["cval"] = (int64_t)R.Val.getInt().getExtValue(); } }
    llvm::json::Array ch;
    for (const Stmt *K : S->children()) ch.push_back(stmt(K));
    if (!ch.empty()) o["c"] = std::move(ch);
    return std::move(o);
  }

  llvm::json::Value cfg(const FunctionDecl *F) {
    CFG::BuildOptions BO; BO.setAllAlwaysAdd(); BO.AddImplicitDtors = false; BO.AddEHEdges = false;
    auto G = CFG::buildCFG(F, F->getBody(), &C, BO);
    if (!G) return nullptr;
    llvm::json::Object o; llvm::json::Array blocks;
    for (CFGBlock *B : *G) {
      llvm::json::Object b; b["id"] = (int64_t)B->getBlockID();
      llvm::json::Array el;
      for (auto &E : *B) if (auto S = E.getAs<CFGStmt>()) { auto it = ids.find(S->getStmt()); if (it != ids.end()) el.push_back(it->second); }
      b["el"] = std::move(el);
      if (const Stmt *T = B->getTerminatorStmt()) { auto it = ids.find(T); b["term"] = it != ids.end() ? llvm::json::Value(it->second) : llvm::json::Value(nullptr); b["termk"] = T->getStmtClassName(); }
      if (const Stmt *TC = B->getTerminatorCondition()) { auto it = ids.find(TC); if (it != ids.end()) b["cond"] = it->second; }
      if (const Stmt *L = B->getLabel()) { auto it = ids.find(L); if (it != ids.end()) b["label"] = it->second; b["labelk"] = L->getStmtClassName(); }
      llvm::json::Array su;
      for (auto I = B->succ_begin(); I != B->succ_end(); ++I) { if (CFGBlock *SB = I->getReachableBlock()) su.push_back((int64_t)SB->getBlockID()); else if (CFGBlock *PB = I->getPossiblyUnreachableBlock()) su.push_back(llvm::json::Array{(int64_t)PB->getBlockID()}); else su.push_back(nullptr); }
      b["succ"] = std::move(su);
      blocks.push_back(std::move(b));
    }
    o["blocks"] = std::move(blocks); o["entry"] = (int64_t)G->getEntry().getBlockID(); o["exit"] = (int64_t)G->getExit().getBlockID();
    return std::move(o);
  }

  llvm::json::Array functions, records, vars;
  std::set<const VarDecl*> seenVar;
  void var(const VarDecl *VD) {
    if (VD->isLocalVarDeclOrParm() || !VD->hasInit() || !inScope(VD->getLocation())) return;
    if (VD->getDeclContext()->isDependentContext()) return;
    if (!seenVar.insert(VD->getCanonicalDecl()).second) return;
    ids.clear(); nextId = 0; declIds.clear(); nextDecl = 0;
    llvm::json::Object o; o["q"] = VD->getQualifiedNameAsString(); o["loc"] = locArr(VD->getLocation()); o["t"] = tyStr(VD->getType());
    o["init"] = stmt(VD->getInit());
    vars.push_back(std::move(o));
  }
  std::set<std::string> seenFn;

  void function(const FunctionDecl *F) {
    if (!F->doesThisDeclarationHaveABody() || F->isDependentContext()) return;
    if (!inScope(F->getLocation())) return;
    std::string m = mangled(F);
    if (!seenFn.insert(m).second) return;
    ids.clear(); nextId = 0; declIds.clear(); nextDecl = 0;
    llvm::json::Object o; o["q"] = F->getQualifiedNameAsString(); o["m"] = m; o["loc"] = locArr(F->getLocation());
    o["end"] = (int64_t)SM.getExpansionLineNumber(F->getEndLoc());
    o["ret"] = tyStr(F->getReturnType());
    o["file"] = SM.getFilename(SM.getExpansionLoc(F->getLocation())).str();
    if (F->isTemplateInstantiation()) o["inst"] = true;
    llvm::json::Array ps; for (auto *P : F->parameters()) ps.push_back(llvm::json::Object{{"name", P->getNameAsString()}, {"t", tyStr(P->getType())}, {"lid", declId(P)}});
    o["params"] = std::move(ps);
    if (auto *M = dyn_cast<CXXMethodDecl>(F)) {
      o["rec"] = M->getParent()->getQualifiedNameAsString(); o["virtual"] = M->isVirtual(); o["static"] = M->isStatic();
      llvm::json::Array ov; for (auto *OM : M->overridden_methods()) ov.push_back(mangled(OM)); o["overrides"] = std::move(ov);
    }
    if (auto *CD = dyn_cast<CXXConstructorDecl>(F)) {
      llvm::json::Array inits; for (auto *I : CD->inits()) { llvm::json::Object io; if (I->getMember()) io["field"] = I->getMember()->getNameAsString(); io["init"] = stmt(I->getInit()); inits.push_back(std::move(io)); }
      o["inits"] = std::move(inits);
    }
    o["body"] = stmt(F->getBody());
    o["cfg"] = cfg(F);
    functions.push_back(std::move(o));
  }
  void record(const CXXRecordDecl *R) {
    if (!R->isCompleteDefinition() || !inScope(R->getLocation()) || R->isDependentContext()) return;
    llvm::json::Object o; o["q"] = R->getQualifiedNameAsString(); o["loc"] = locArr(R->getLocation());
    llvm::json::Array bases; for (auto &B : R->bases()) bases.push_back(tyStr(B.getType())); o["bases"] = std::move(bases);
    llvm::json::Array fields; for (auto *FD : R->fields()) fields.push_back(llvm::json::Object{{"name", FD->getNameAsString()}, {"t", tyStr(FD->getType())}}); o["fields"] = std::move(fields);
    llvm::json::Array ms; for (auto *M : R->methods()) { llvm::json::Object mo; mo["name"] = M->getNameAsString(); mo["m"] = mangled(M); mo["virtual"] = M->isVirtual(); mo["pure"] = M->isPure(); mo["def"] = M->isDefined(); llvm::json::Array ov; for (auto *OM : M->overridden_methods()) ov.push_back(mangled(OM)); mo["overrides"] = std::move(ov); ms.push_back(std::move(mo)); }
    o["methods"] = std::move(ms);
    records.push_back(std::move(o));
  }
};

struct V : RecursiveASTVisitor<V> {
  Exporter &X; explicit V(Exporter &X) : X(X) {}
  bool shouldVisitTemplateInstantiations() const { return true; }
  bool shouldVisitImplicitCode() const { return false; }
  bool VisitFunctionDecl(FunctionDecl *F) { X.function(F); return true; }
  bool VisitCXXRecordDecl(CXXRecordDecl *R) { X.record(R); return true; }
  bool VisitVarDecl(VarDecl *D) { X.var(D); return true; }
};

struct Cons : ASTConsumer {
  void HandleTranslationUnit(ASTContext &C) override {
    Exporter X(C); V v(X); v.TraverseDecl(C.getTranslationUnitDecl());
    llvm::json::Object top; auto &SM = C.getSourceManager();
    top["tu"] = SM.getFileEntryForID(SM.getMainFileID())->getName().str();
    llvm::json::Array inc; std::set<std::string> seen;
    for (auto I = SM.fileinfo_begin(); I != SM.fileinfo_end(); ++I) { std::string n = I->first->getName().str(); if (n.rfind(gRoot, 0) == 0 && seen.insert(n).second) inc.push_back(n); }
    top["files"] = std::move(inc);
    top["functions"] = std::move(X.functions); top["records"] = std::move(X.records); top["vars"] = std::move(X.vars);
    std::error_code EC; llvm::raw_fd_ostream os(gOut, EC);
    os << llvm::json::Value(std::move(top));
  }
};
struct Act : PluginASTAction {
  std::unique_ptr<ASTConsumer> CreateASTConsumer(CompilerInstance&, llvm::StringRef) override { return std::make_unique<Cons>(); }
  bool ParseArgs(const CompilerInstance&, const std::vector<std::string>& a) override {
    for (auto &s : a) { if (s.rfind("out=", 0) == 0) gOut = s.substr(4); else if (s.rfind("scope=", 0) == 0) gScope.push_back(s.substr(6)); else if (s.rfind("root=", 0) == 0) gRoot = s.substr(5); }
    return true;
  }
  ActionType getActionType() override { return AddBeforeMainAction; }
};
}
static FrontendPluginRegistry::Add<Act> X("uscxml-facts", "export AST/CFG facts");
