#!/usr/bin/env python3
"""tryall.py <patch.diff> [...]  -- applies each patch to its own scratch copy of /repo's sources and runs EVERY claimed check
(quick tier) on it; prints the checks that do not pass.  Used to look for false alarms on behaviour-preserving edits."""
import json, os, shutil, subprocess, sys, tempfile
from concurrent.futures import ThreadPoolExecutor
V = os.path.dirname(os.path.dirname(os.path.abspath(__file__)))
ids = [c['property_id'] for c in json.load(open(os.path.join(V, 'MANIFEST.json')))['checks']]


def run_patch(patch):
    patch = os.path.abspath(patch)
    tmp = tempfile.mkdtemp(prefix='verif_all_')
    try:
        subprocess.run(['rsync', '-a', '--exclude', '_build', '--exclude', '.git', '--exclude', 'OUT', os.environ.get('VERIF_SRC_REPO', '/repo').rstrip('/') + '/', tmp + '/'], check=True)
        r = subprocess.run(['git', 'apply', '--whitespace=nowarn', patch], cwd=tmp, capture_output=True, text=True)
        if r.returncode:
            r = subprocess.run(['patch', '-p1', '-s', '-f', '-i', patch], cwd=tmp, capture_output=True, text=True)
            if r.returncode:
                return patch, 'DOES NOT APPLY', []
        env = dict(os.environ, VERIF_REPO=tmp, VERIF_EVIDENCE_DIR=tmp + '/.ev', VERIF_OUT_DIR=tmp + '/.out')

        def one(p):
            r = subprocess.run([os.path.join(V, 'check'), p], env=env, capture_output=True, text=True)
            lines = [l for l in r.stdout.splitlines() if l.startswith(('  R', 'ANALYSIS'))]
            return p, r.returncode, lines
        with ThreadPoolExecutor(6) as ex:
            res = list(ex.map(one, ids))
        bad = [(p, rc, lines) for p, rc, lines in res if rc != 0]
        return patch, 'ok' if not bad else 'ALARM', bad
    finally:
        shutil.rmtree(tmp, ignore_errors=True)


if __name__ == '__main__':
    for patch in sys.argv[1:]:
        p, status, bad = run_patch(patch)
        print('%s: %s' % (p, status))
        for pid, rc, lines in bad:
            print('   %s rc=%d' % (pid, rc))
            for l in lines[:4]:
                print('      ' + l[:300])
