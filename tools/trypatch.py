#!/usr/bin/env python3
"""trypatch.py <property> <patch.diff> [more properties...]  -- runs the static check(s) on a scratch copy of /repo with the patch applied"""
import os, shutil, subprocess, sys, tempfile
V = os.path.dirname(os.path.dirname(os.path.abspath(__file__)))
prop, patch = sys.argv[1], os.path.abspath(sys.argv[2])
props = [prop] + sys.argv[3:]
tmp = tempfile.mkdtemp(prefix='verif_try_')
try:
    subprocess.run(['rsync', '-a', '--exclude', '_build', '--exclude', '.git', '--exclude', 'OUT', os.environ.get('VERIF_SRC_REPO', '/repo').rstrip('/') + '/', tmp + '/'], check=True)
    r = subprocess.run(['git', 'apply', '--whitespace=nowarn', patch], cwd=tmp, capture_output=True, text=True)
    if r.returncode:
        r = subprocess.run(['patch', '-p1', '-s', '-f', '-i', patch], cwd=tmp, capture_output=True, text=True)
        if r.returncode:
            sys.exit('patch does not apply: ' + r.stdout + r.stderr)
    for p in props:
        env = dict(os.environ, VERIF_REPO=tmp, VERIF_EVIDENCE_DIR=tmp + '/.ev', VERIF_OUT_DIR=tmp + '/.out')
        r = subprocess.run([os.path.join(V, 'check'), p], env=env, capture_output=True, text=True)
        print('== %s rc=%d' % (p, r.returncode))
        for l in r.stdout.splitlines():
            if l.startswith(('  R', 'VIOLATION', 'ANALYSIS', 'PASS')):
                print(l[:400])
finally:
    shutil.rmtree(tmp, ignore_errors=True)
