#!/usr/bin/env python3
"""Rewrites commit hashes in known_findings.txt after /repo history was rewritten (fixup/autosquash): maps each old
hash to the commit on main with the same subject."""
import re, subprocess
def git(*a): return subprocess.run(['git', '-C', '/repo'] + list(a), capture_output=True, text=True).stdout
main = {}
for line in git('log', '--format=%h\t%s', 'main').splitlines():
    h, s = line.split('\t', 1)
    main.setdefault(s, h)
out = []
for line in open('/verif/known_findings.txt'):
    m = re.match(r'(fixed: property=C\d+ )([0-9a-f]{7,10})( .*)', line.rstrip('\n'))
    if m:
        subj = git('show', '-s', '--format=%s', m.group(2)).strip()
        new = main.get(subj)
        if new and new != m.group(2):
            line = m.group(1) + new + m.group(3) + '\n'
        elif not new:
            print('no commit on main for', m.group(2), subj)
    out.append(line)
open('/verif/known_findings.txt', 'w').writelines(out)
