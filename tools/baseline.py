#!/usr/bin/env python3
"""usage: baseline.py <build dir>   -- builds, runs ctest, compares with the 353 stable-pass tests of BASELINE.json"""
import json, re, subprocess, sys
bd = sys.argv[1]
r = subprocess.run(['cmake', '--build', bd], capture_output=True, text=True)
if r.returncode != 0:
    print('BUILD FAILED'); print(r.stdout[-3000:]); print(r.stderr[-3000:]); sys.exit(2)
r = subprocess.run(['ctest', '--test-dir', bd, '-j16', '--timeout', '900'], capture_output=True, text=True)
b = json.load(open('/root/.vp/BASELINE.json'))
sp = set(x.split('::')[0] for x in b['stable_pass'])
passed = set(re.findall(r'Test\s+#\d+: (\S+) \.+\s+Passed', r.stdout))
missing = sorted(sp - passed)
print('stable-pass tests: %d, passing now: %d, missing: %s' % (len(sp), len(sp & passed), missing))
sys.exit(1 if missing else 0)
