#!/bin/bash
# runs every claimed check (quick tier by default) in parallel and prints one line per property
cd "$(dirname "$0")/.." || exit 2
tier=${1:-quick}
ids=$(python3 -c "import json;print(' '.join(c['property_id'] for c in json.load(open('MANIFEST.json'))['checks']))")
mkdir -p out
echo $ids | tr ' ' '\n' | xargs -P 8 -I{} sh -c "./check {} --tier $tier > out/run_{}.log 2>&1; echo {} rc=\$? \$(tail -1 out/run_{}.log | cut -c1-120)"
