#!/usr/bin/env python3
"""Regenerates /verif/MANIFEST.json from the table below (keeps it valid by construction)."""
import json, os, sys
V = os.path.dirname(os.path.dirname(os.path.abspath(__file__)))
sys.path.insert(0, V)

NOTE_COMMON = ('Trusted base: clang 14 parser/sema/CFG builder; class-hierarchy call graph; the library model of DESIGN 3.3. '
               'Static, clause-level: decides the structural clauses listed in DESIGN 4, not the whole behavioural property. ')

CHECKS = {
    # id: (technique, level text, undecided clauses)
    'C01': ('CFG x DFA product for the Appendix-D phase order (history, exit, transition, enter, done) over classified callback/configuration events; loop-direction and container-origin extraction for every handler/state/transition loop; edge dominance and the exact flag relation for the dequeue priority; guard, typestate, interval-closedness and enumeration-discipline rules',
            'Decides for every document at once that the default engine\'s step() follows the skeleton of the W3C algorithm: phases in order on every path, exit set in reverse and entry/transition sets in document order, eventless before internal before external events, block-level error containment, empty exit intervals never applied, bitsets never indexed after being shrunk, closed-interval comparisons, state kinds compared not masked, and no direct dependency on a data model. Thorough tier: same on the fast engine.',
            'Not decided: the sets selection, entry-set completion and data handling compute for a given chart (values).'),
    'C02': ('who-may-write rule for the configuration member(s); paired-update comparison of the two ordered views; within-iteration reachability from the pseudo-state kind tests to the configuration insert; origin of exit-set insertions; exhaustiveness of the completion switch against the kind codes assigned in init(); history update conditioned on the configuration',
            'Decides the structural necessary conditions of a legal configuration in both engines: only the exit/enter phases, reset and deserialize write it, both ordered views are updated together, pseudo-states can never be inserted, only active states are exited, the root is never exited, every state kind has a completion arm, remembered history is a subset of what was active.',
            'Not decided: legality of the configuration for every chart and history (needs the entry-set values).'),
    'C03': ('sibling cross-check: the complete fact vector of one engine (event alphabet and site counts, phase and monitor protocol verdicts, loop directions per site, exact _flags relation as a set of tuples, containment status per callback site, reset coverage, serialization keys) compared for equality with the other engine\'s; registration table extraction',
            'Decides that an edit to one engine that is not mirrored in the other shows up as a named fact difference, and that both engines are registered under distinct names with the large engine as default. The fast engine is never run by the test suite; here it is analysed like any other source.',
            'Not decided: equality of traces per input.'),
    'C04': ('template reconstruction of the emitted C from the stream-insertion statements of the straight-line writers, parsed by clang as C and exported by the same plugin; dimension typing of every array subscript and bit_* helper call of the emitted step function (state vs transition domains carried by distinct array sizes); provenance of the sizing operands in the generator; writer/reader bit-layout comparison; CFG x DFA skeleton check of the emitted step function; index-width provenance',
            'Decides for ALL documents that the emitted uscxml_step never indexes a state-sized bit array, the state table, a transition-sized bit array or the transition table with an index of the other domain, that every helper call uses one domain, that the array bounds cover the largest machine and the byte counts are ceil(N/8), that initialiser bit order matches the access macros, that the emitted phases follow the same skeleton as the engines, and that the loop variables are wide enough for every emitted machine.',
            'Not decided: trace equality with the interpreter per chart; the document-dependent tables (C05) and executable-content functions.'),
    'C05': ('who-may-write / who-may-interpret rules over the DOM annotation attributes (resolved X("...") literals at setAttribute/getAttribute sites); loop-invariance analysis of bit-string filters inside loops over states/transitions; literal-set comparison of the order-defining vocabularies; term extraction of the conflict predicate at its two definition sites',
            'Decides that the structural tables have a single writer (ChartToC\'s prepare family), that no back-end re-derives default completion from the `initial` attribute (recorded finding for VHDL), that table filters inside element loops really vary with the loop, that C/engines agree on the element vocabulary that defines document and post-fix order, and that the conflict relation is defined with the same terms in both places.',
            'Not decided: that Predicates.cpp computes the relations the recommendation defines for every state tree.'),
    'C07': ('typed exception-flow fix-point over the whole-program call graph (CHA, handler liveness, library-thrower table), containment check at every engine callback site and at every thread root / C callback, CFG path query through each catch(ErrorEvent) handler, re-entrancy check of enqueue-and-rethrow handlers, dominance of fault guards',
            'Decides for all documents at once that no exception of a repository type can leave step() from a callback site or leave a thread root of the interpreter core, that every ErrorEvent handler on the executable-content path raises the error event on every path exactly once, that a failing block skips only itself, and that the anchored arithmetic/index faults are guarded.',
            'Not decided: out-of-bounds inside third-party C code; exceptions thrown by user-supplied monitors or by library calls outside the library-thrower table.'),
    'C08': ('flow-sensitive lock-set analysis on the CFG (RAII guards with scopes, unique_lock lock/unlock, raw lock/unlock) with must-hold-on-entry across the call graph; who-may-mutate table for the FIFO ends; CFG x DFA product for the copy/remove/return protocol of dequeue; wait-loop and push/notify ordering rules; edge dominance and the exact _flags relation for the macrostep boundary',
            'Decides for every schedule, by a lock-discipline argument, that each queue operation is atomic (every access to the queue under its mutex), FIFO-correct (add back / take front only), exactly-once (remove iff return the copied front), free of lost wake-ups, and that an external event is only dequeued after the spontaneous test failed and the internal queue was found empty; a step that took transitions always re-checks eventless transitions first.',
            'Not decided: fairness/timing; semantics of std::condition_variable_any are assumed.'),
    'C09': ('lock-order graph over (mutex, instance role) nodes extended with pseudo-locks for libevent callbacks (held while the callback runs, acquired by blocking event_del/event_free) and thread joins; cycle search; critical-section (same guard) typestate for timer free/erase; CFG x DFA for exactly-once delivery; lock-set rule for the bookkeeping maps; table/shape extraction for delay units',
            'Decides for all schedules that the delayed-event machinery has no lock-order cycle other than the recorded findings, that a fired or cancelled timer is freed and un-published in one critical section (no double free / use after free), that the callback delivers exactly once or not at all, that cancel visits and removes every matching entry, that the bookkeeping maps are only touched under their mutex, and that delay units are converted correctly.',
            'Not decided: wall-clock timing ("not before its delay"); due-time order among timers is libevent\'s.'),
    'C10': ('exact abstract interpretation of the engines\' 6-bit _flags word (complete (flags, return code, events) relation, closed under reachability from PRISTINE); null-handle typestate of the facade handles on the CFG of the pre-init API entries; field-write facts (step() vs reset()); dominance rules for the cancel protocol and destructor order; sticky-wake-up rule for while(flag)-dispatch thread roots; lock-order cycles through joins; shared-field lock-set table over thread-root reachability',
            'Decides for all charts and schedules the life-cycle automaton of step() results (finished absorbing, cancelled -> exactly one finalising step, idle only when stable, pristine enters the initial configuration), that receive/cancel/reset/destruction never use a handle that init() has not created, that reset() re-initialises every persistent run-state member and queue, that cancel() marks before it unblocks and the woken step sees the mark, that the timer thread is woken with a sticky primitive and never joined under a lock it needs (recorded finding excepted), and that every field shared between the API, timer and invoker threads has a common mutex or a confirmed reason.',
            'Not decided: that a reset interpreter behaves like a fresh one beyond member coverage (data model values).'),
    'C11': ('edge dominance and CFG reachability for the placement of (un)invocation between the internal and the external dequeue; path rule that every invoke/uninvoke is followed by the matching _invocations update on all paths; control-dependence of the completion-phase uninvoke; ordering/gating rules on USCXMLInvoker (run, stop, uninvoke, parent queue); if-chain table extraction for the send-target routing; lock-order cycles through invoker nodes; NULL-test dominance for every reader of the invokeid user datum',
            'Decides that both engines start and cancel invocations only at macrostep end, keep _invocations in step with what was (un)invoked on every path, cancel every remaining invocation at completion, that finalize and autoforward run before the event is matched, that the invoker thread reports done.invoke only after FINISHED and only while active, that stop() deactivates, cancels and joins in that order, that late child events are gated, that targets are routed to exactly the specified sink, and that no reader of the invoke id dereferences NULL.',
            'Not decided: exactly-once / iff statements across all thread interleavings beyond what the lock, gate and ordering structure gives.'),
    'C12': ('call-graph who-calls rule for the single matcher; linear normal form of token guards and a confirmed table of skip/start/last-token combinations in the sibling scanner loops; structural fingerprint + decision-feature comparison of the two matcher copies; normalisation-feature extraction at every trie lookup',
            'Decides that interpreter, validator and debugger share one matcher, that every whitespace-splitting scanner (incl. the copies shipped for generated C) takes every non-empty token, that the shipped copy of the matcher has the same decision features, and that Promela and VHDL normalise descriptors alike before static resolution.',
            'Not decided: the relation nameMatch computes on all strings (needs execution or a solver).'),
    'C13': ('path-language check: product of each engine\'s step() CFG (386/323 blocks, exception edges from the exception-flow analysis) with a hand-written nesting DFA over monitor-macro expansions, callback calls classified by origin and configuration updates; exact abstract interpretation of the 6-bit _flags word for the stable-notice clause; same product for the executor brackets; call-graph and CFG ordering rules for finalize and monitor hand-over',
            'Decides on every CFG path, normal and exceptional, of both engines and of the content executor that notifications are balanced and nested (exits, then transitions, then entries), that configuration updates/content/initData/(un)invoke only occur inside their bracket, that the stable notice is issued exactly when STABLE is newly set and the step returns MACROSTEPPED, and that invoked sessions get their monitors before they start.',
            'Not decided: which states/transitions are reported (values); monitors that throw.'),
    'C14': ('object-sensitive key extraction (which Data keys a serialize() writes on its returned object and a deserialize() reads from its argument, top level and per array element) compared as sets per pair; member provenance of each key on both sides; run-state coverage from field-write facts; CFG dominance of the MD5 comparison over every restoring call; ordering of data-model and micro-stepper restore',
            'Decides for the seven writer/reader pairs (interpreter, both engines, both queues, invoker, Event) that they agree on the schema and on which member each key comes from and goes to, that every persistent run-state member is saved and restored (or exempt with reason), that a state string of another document is rejected before anything is applied, that serialize() only accepts stable states, and that data values are restored before invocations are re-run.',
            'Not decided: behavioural identity of the resumed interpreter under every continuation.'),
    'C15': ('table extraction from if-chains/switches (escape, unescape, jsmn accept sets) compared as relations; forward must-analysis of container non-emptiness on the CFG of Data::fromJSON; linear-form comparison of allocation size and parser capacity',
            'Decides for all byte values that the JSON escape writer, the unescape reader and the jsmn string scanner agree on every escaped character, that Data::fromJSON never peeks or pops an empty stack on any CFG path, and that the sentinel token the walker relies on is kept.',
            'Not decided: equality of round-tripped Data trees for all values; absence of out-of-bounds inside jsmn.c itself; Event<->Data agreement is decided under C14.'),
    'C16': ('table extraction from the type-dispatch if-chain of getLuaAsData and the switch of getDataAsLua (Lua type tag -> Data::type -> Lua value), composed and compared with the identity; literal-set comparison of published system variables against assign()\'s rejected names; CFG dominance of the protection check in init() and of the params/namelist merge in setEvent; type of the container that orders array items',
            'Decides that strings, numbers, booleans and nil keep their kind across the Data boundary (strings are never re-evaluated as code), that every Lua type tag and every Data::type has an arm, that each published system variable is refused by assign() before anything touches it, that event params and namelist are merged before the single conversion into _event.data, and that array items are ordered numerically.',
            'Not decided: value equality for arbitrarily nested values (depends on run-time shapes such as empty tables or numeric-key maps).'),
    'C17': ('LALR(1) table interrogation: the shipped yypact/yytable/... arrays are read from the AST and walked like bison\'s skeleton for every operator pair/triple; switch-arm table extraction (constructed node kinds and arities vs evaluator arms); sequencing rule on the operand iterator; CFG dominance of the zero-divisor and index-bound tests',
            'Decides exhaustively over all 225 ordered operator pairs (3375 triples in the thorough tier) how the shipped parser groups them, that every parsed operator of the set is evaluated with the arity it is built with, that operand fetches are sequenced, and that division/modulo and array indexing are guarded.',
            'Not decided: numeric results, struct/array read-back values.'),
    'C18': ('equation-template extraction: symbolic evaluation of ChartToVHDL\'s comma-operator DSL (VASSIGN/VOR/VAND/VNOT/VLINE) and of the loops and relation filters that fill its term containers, over canonical element names; domain typing of every emitted signal index and relation subscript; truth-table comparison of each equation skeleton with the reference function; reference-table comparison of container composition with three-valued evaluation of state-kind guards',
            'Decides for ALL documents that the emitted next-state logic is assembled as the step algorithm prescribes: state-family signals are indexed with state numbers and transition-family signals with transition numbers, every relation bit string is read from the right kind of element, subscripted in the right domain and tests the element whose term it admits, every equation (optimal transition set, exit set, complete entry set up/down, entry set, next state) is the reference Boolean function of its atoms, every term container has the reference kind, scope, terms and filters (conflict suppression by earlier transitions only), and the state register copies next to active index by index.',
            'Not decided: equality of the per-document equation system with the step algorithm for all configurations and valuations (equivalence checking per document); default completion through the `initial` attribute is a recorded finding; event controller, condition solver and timing are not analysed.'),
    'C19': ('literal-set extraction of the validator\'s vocabulary against the executor\'s dispatch chain and the engines\' state vocabulary; string-template analysis of how each data-model API method hands its argument to the language parser (statement vs expression vs location context) compared between the validator\'s and the executor\'s call for each attribute kind; message -> severity table; non-emptiness analysis of container accesses in the validator',
            'Decides that everything the validator accepts as executable content is executed, that validator and engines agree on what a state is, that expression attributes are syntax-checked in the context in which they are later evaluated (no false syntax warnings by construction, for every in-tree data model), that the issues which make execution dereference missing states are FATAL, and that the validator does not peek into empty lists.',
            'Not decided: soundness and completeness of the structural verdict for every document.'),
    'C20': ('type-resolved AST queries over the transformer call-graph closure (pointer insertion, address-ordered iteration, nondeterminism sources) + CFG must-pass-through for the cache guard',
            'Decides for all documents at once that no pointer value, address-ordered container iteration, address-based sort or other nondeterminism source feeds transformer output, and that cache files have no unguarded consumer.',
            'Not decided: std::hash stability (assumed), trace determinism of the interpreter beyond address-ordered iteration in the engines (thorough).'),
}

NOT_APPLICABLE = {
    'C06': 'equality of two operational semantics (spin model vs interpreter) for all charts: no structural fact of the generator implies it; generator-level facts are decided under C05/C12/C20 (DESIGN 5)',
}

ALL = ['C%02d' % i for i in range(1, 21)]

def main():
    checks = []
    na = []
    for pid in ALL:
        if pid in CHECKS and os.path.exists(os.path.join(V, 'sa', 'rules', pid + '.py')):
            tech, text, undec = CHECKS[pid]
            checks.append({
                'property_id': pid,
                'quick_cmd': './check %s --tier quick' % pid,
                'thorough_cmd': './check %s --tier thorough' % pid,
                'evidence_file': '/verif/evidence/%s.json' % pid,
                'replay_cmd_template': './check %s --replay {path}' % pid,
                'engine': 'uscxml-facts + sa',
                'level_claimed': {'category': 'other', 'text': 'Static analysis, clause-level. ' + text, 'design_ref': 'DESIGN.md 4/' + pid},
                'level_note': NOTE_COMMON + undec,
                'technique': 'static analysis: ' + tech,
            })
        elif pid in NOT_APPLICABLE:
            na.append({'property_id': pid, 'reason': NOT_APPLICABLE[pid]})
        else:
            na.append({'property_id': pid, 'reason': 'designed in DESIGN.md 4/%s but the check is not built yet; not claimed until it is' % pid})
    m = {
        'version': 1,
        'setup_cmd': './setup.sh',
        'hooks': {'guard': 'USCXML_VERIF', 'enable': 'no source hooks are used: nothing is instrumented or executed (static analysis of the unmodified tree)',
                  'baseline_off_cmd': 'cmake --build /repo/_build && ctest --test-dir /repo/_build -j8 --timeout 900',
                  'source_commits': [], 'add_only': True},
        'engines': [
            {'name': 'uscxml-facts', 'path': 'tools/facts/facts.cc', 'serves_properties': [c['property_id'] for c in checks],
             'kind_free_text': 'clang-14 frontend plugin exporting typed AST + clang CFG facts per function (JSON), run with the real build flags'},
            {'name': 'sa', 'path': 'sa/', 'serves_properties': [c['property_id'] for c in checks],
             'kind_free_text': 'Python rule library: call graph, exception flow, CFG path/dominance queries, flag abstract interpretation, lock order, table extraction, template reconstruction, LALR table reader'},
        ],
        'checks': checks,
        'not_applicable': na,
        'notes': 'Exit codes: 0 pass (known findings printed as KNOWN-FINDING), 1 VIOLATION, 2 analysis broken (anchor vanished / unknown idiom). known_findings.txt is never written by a check.',
    }
    json.dump(m, open(os.path.join(V, 'MANIFEST.json'), 'w'), indent=1)
    print('%d checks, %d not applicable' % (len(checks), len(na)))

main()
