#!/usr/bin/env python3
"""revertcheck.py [--prop Cxx] [--jobs N] [--write]
For every `fixed:` line of known_findings.txt: take the repair commit out again on a scratch copy of /repo's current tree
(reverse diff of the commit's src/ and contrib/ changes) and run the property's check there.  Expected: the check
reports a violation, and - when the line names a rule - by that rule.  A repair whose reverse diff no longer applies
(later repairs rewrote the same lines) is reported as such, not as a pass.  Nothing here is part of a verdict;
--write stores the table as reverts/RESULTS.json (read by tools/mkrules.py)."""
import concurrent.futures as cf, json, os, re, shutil, subprocess, sys, tempfile
V = os.path.dirname(os.path.dirname(os.path.abspath(__file__)))
REPO = '/repo'


def entries():
    out = []
    for l in open(os.path.join(V, 'known_findings.txt')):
        m = re.match(r'fixed: property=(C\d+) ([0-9a-f]{7,}) (.*)', l)
        if m:
            rule = re.match(r'(R\d+\.\d+)', m.group(3))
            out.append((m.group(1), m.group(2), rule.group(1) if rule else None, m.group(3)[:110]))
    return out


def one(e):
    prop, commit, rule, what = e
    d = subprocess.run(['git', '-C', REPO, 'diff', commit, commit + '^', '--', 'src', 'contrib', 'test/src'], capture_output=True, text=True).stdout
    if not d.strip():
        return e, 'NO-DIFF', ''
    tmp = tempfile.mkdtemp(prefix='verif_rev_')
    try:
        subprocess.run(['rsync', '-a', '--exclude', '_build', '--exclude', '.git', '--exclude', 'OUT', REPO + '/', tmp + '/'], check=True)
        r = subprocess.run(['git', 'apply', '--whitespace=nowarn', '-'], cwd=tmp, input=d, capture_output=True, text=True)
        if r.returncode:
            r = subprocess.run(['patch', '-p1', '-s', '-f', '--no-backup-if-mismatch'], cwd=tmp, input=d, capture_output=True, text=True)
            if r.returncode:
                return e, 'DOES-NOT-APPLY', ''
        env = dict(os.environ, VERIF_REPO=tmp, VERIF_EVIDENCE_DIR=tmp + '/.ev', VERIF_OUT_DIR=tmp + '/.out', VERIF_NO_SELFTEST='1')
        r = subprocess.run([os.path.join(V, 'check'), prop], env=env, capture_output=True, text=True)
        fired = sorted(set(re.findall(r'^  (R\d+\.\d+)\|', r.stdout, re.M)))
        if r.returncode == 1:
            st = 'REPORTED' if (rule is None or rule in fired) else 'REPORTED-BY-OTHER-RULE'
        elif r.returncode == 0:
            st = 'MISSED'
        else:
            st = 'ANALYSIS-BROKEN'
        return e, st, ','.join(fired) or ((r.stdout.strip() or r.stderr.strip() or '?').splitlines()[-1][:160])
    finally:
        shutil.rmtree(tmp, ignore_errors=True)


def main():
    a = sys.argv[1:]
    prop = a[a.index('--prop') + 1].split(',') if '--prop' in a else None
    jobs = int(a[a.index('--jobs') + 1]) if '--jobs' in a else 4
    es = [e for e in entries() if prop is None or e[0] in prop]
    res = []
    with cf.ThreadPoolExecutor(jobs) as ex:
        for e, st, info in ex.map(one, es):
            print('%-22s %s %s %s :: %s' % (st, e[0], e[1], e[2] or '-', info), flush=True)
            res.append({'property': e[0], 'commit': e[1], 'rule': e[2], 'what': e[3], 'status': st, 'fired': info})
    bad = [r for r in res if r['status'] in ('MISSED', 'ANALYSIS-BROKEN')]
    print('%d repairs taken out again: %d reported, %d do not apply any more, %d missed/broken' % (
        len(res), sum(r['status'].startswith('REPORTED') for r in res), sum(r['status'] == 'DOES-NOT-APPLY' for r in res), len(bad)))
    if '--write' in a:
        os.makedirs(os.path.join(V, 'reverts'), exist_ok=True)
        path = os.path.join(V, 'reverts', 'RESULTS.json')
        old = json.load(open(path)) if os.path.exists(path) and prop else []
        keep = [o for o in old if not any(o['property'] == r['property'] and o['commit'] == r['commit'] for r in res)]
        json.dump(sorted(keep + res, key=lambda r: (r['property'], r['commit'])), open(path, 'w'), indent=1)
    sys.exit(1 if bad else 0)


if __name__ == '__main__':
    main()
