#!/bin/bash
# Builds the fact exporter plugin and derives the compilation database. Offline, idempotent.
set -e
V=/verif
mkdir -p $V/work/bin $V/work/facts $V/out $V/evidence
if [ ! -f $V/work/bin/facts.so ] || [ $V/tools/facts/facts.cc -nt $V/work/bin/facts.so ]; then
  clang++ $(llvm-config-14 --cxxflags) -fno-rtti -fPIC -shared $V/tools/facts/facts.cc -o $V/work/bin/facts.so.tmp
  mv $V/work/bin/facts.so.tmp $V/work/bin/facts.so
fi
if [ ! -f $V/work/compdb.json ] || [ /repo/CMakeLists.txt -nt $V/work/compdb.json ]; then
  rm -rf $V/work/cfg
  cmake -G Ninja -S /repo -B $V/work/cfg -DCMAKE_BUILD_TYPE=RelWithDebInfo > $V/work/cfg.log 2>&1 || { tail -30 $V/work/cfg.log; exit 1; }
  ninja -C $V/work/cfg -t compdb > $V/work/compdb.json.tmp
  mv $V/work/compdb.json.tmp $V/work/compdb.json
fi
echo "setup ok: $(ls -la $V/work/bin/facts.so | awk '{print $5}') byte plugin, $(grep -c '"file"' $V/work/compdb.json) compdb entries"
